// extract: reads /repo's Go sources with go/parser and prints Lean *data* (never logic)
// to Gonuts/Gen/Facts.lean: constants, the error table, enum string tables, the HTTP
// route table, struct JSON tags and, for the functions the models mirror, the
// "effect skeleton" — the storage / Lightning / helper calls in source order with the
// branch nesting around them.  Gonuts/Tie/*.lean proves (rfl / decide) that each
// fact equals what the hand-written model uses.  Stdlib only.
package main

import (
	"bytes"
	"fmt"
	"go/ast"
	"go/parser"
	"go/printer"
	"go/token"
	"os"
	"path/filepath"
	"sort"
	"strconv"
	"strings"
)

var fset = token.NewFileSet()

type pkg struct {
	files map[string]*ast.File
}

func parseDir(dir string) *pkg {
	p := &pkg{files: map[string]*ast.File{}}
	ents, err := os.ReadDir(dir)
	if err != nil {
		fail("readdir %s: %v", dir, err)
	}
	for _, e := range ents {
		n := e.Name()
		if e.IsDir() || !strings.HasSuffix(n, ".go") || strings.HasSuffix(n, "_test.go") || strings.HasPrefix(n, "verif_") {
			continue
		}
		f, err := parser.ParseFile(fset, filepath.Join(dir, n), nil, parser.ParseComments)
		if err != nil {
			fail("parse %s: %v", n, err)
		}
		p.files[n] = f
	}
	return p
}

func fail(format string, a ...any) {
	fmt.Fprintf(os.Stderr, "extract: "+format+"\n", a...)
	os.Exit(3)
}

func leanStr(s string) string {
	var sb strings.Builder
	sb.WriteByte('"')
	for _, c := range s {
		switch c {
		case '"':
			sb.WriteString("\\\"")
		case '\\':
			sb.WriteString("\\\\")
		case '\n':
			sb.WriteString("\\n")
		case '\t':
			sb.WriteString("\\t")
		default:
			sb.WriteRune(c)
		}
	}
	sb.WriteByte('"')
	return sb.String()
}

func leanStrList(xs []string) string {
	q := make([]string, len(xs))
	for i, x := range xs {
		q[i] = leanStr(x)
	}
	return "[" + strings.Join(q, ", ") + "]"
}

// ---- constants ----

type constEnv map[string]any // int64 or string

func evalConst(e ast.Expr, env constEnv) (any, bool) {
	switch x := e.(type) {
	case *ast.BasicLit:
		switch x.Kind {
		case token.INT:
			v, err := strconv.ParseInt(x.Value, 0, 64)
			if err != nil {
				return nil, false
			}
			return v, true
		case token.STRING:
			s, err := strconv.Unquote(x.Value)
			if err != nil {
				return nil, false
			}
			return s, true
		case token.FLOAT:
			return x.Value, true
		}
	case *ast.ParenExpr:
		return evalConst(x.X, env)
	case *ast.Ident:
		v, ok := env[x.Name]
		return v, ok
	case *ast.BinaryExpr:
		a, ok1 := evalConst(x.X, env)
		b, ok2 := evalConst(x.Y, env)
		if !ok1 || !ok2 {
			return nil, false
		}
		ai, aok := a.(int64)
		bi, bok := b.(int64)
		if aok && bok {
			switch x.Op {
			case token.ADD:
				return ai + bi, true
			case token.SUB:
				return ai - bi, true
			case token.MUL:
				return ai * bi, true
			case token.SHL:
				return ai << uint(bi), true
			case token.QUO:
				if bi != 0 {
					return ai / bi, true
				}
			}
		}
		as, aok := a.(string)
		bs, bok := b.(string)
		if aok && bok && x.Op == token.ADD {
			return as + bs, true
		}
	case *ast.CallExpr: // typed conversion like CashuErrCode(1)
		if len(x.Args) == 1 {
			return evalConst(x.Args[0], env)
		}
	}
	return nil, false
}

// collectConsts evaluates every package-level const (with iota support) in the package.
func collectConsts(p *pkg) constEnv {
	env := constEnv{}
	names := make([]string, 0, len(p.files))
	for n := range p.files {
		names = append(names, n)
	}
	sort.Strings(names)
	for round := 0; round < 3; round++ {
		for _, n := range names {
			for _, d := range p.files[n].Decls {
				gd, ok := d.(*ast.GenDecl)
				if !ok || gd.Tok != token.CONST {
					continue
				}
				var lastExpr ast.Expr
				for i, s := range gd.Specs {
					vs := s.(*ast.ValueSpec)
					for j, name := range vs.Names {
						var e ast.Expr
						if j < len(vs.Values) {
							e = vs.Values[j]
							lastExpr = e
						} else {
							e = lastExpr
						}
						if e == nil {
							continue
						}
						env["iota"] = int64(i)
						if v, ok := evalConst(e, env); ok {
							env[name.Name] = v
						}
						delete(env, "iota")
					}
				}
			}
		}
	}
	return env
}

// ---- error table: package-level `X = Error{Detail: "...", Code: Y}` / cashu.Error{...} ----

type errRow struct {
	name, detail string
	code         int64
}

func collectErrors(p *pkg, env constEnv, extra constEnv) []errRow {
	var rows []errRow
	for _, f := range p.files {
		for _, d := range f.Decls {
			gd, ok := d.(*ast.GenDecl)
			if !ok || gd.Tok != token.VAR {
				continue
			}
			for _, s := range gd.Specs {
				vs := s.(*ast.ValueSpec)
				for j, name := range vs.Names {
					if j >= len(vs.Values) {
						continue
					}
					cl, ok := vs.Values[j].(*ast.CompositeLit)
					if !ok {
						continue
					}
					tn := exprString(cl.Type)
					if tn != "Error" && tn != "cashu.Error" {
						continue
					}
					row := errRow{name: name.Name, code: -1}
					for _, el := range cl.Elts {
						kv, ok := el.(*ast.KeyValueExpr)
						if !ok {
							continue
						}
						k := exprString(kv.Key)
						merged := constEnv{}
						for a, b := range extra {
							merged[a] = b
						}
						for a, b := range env {
							merged[a] = b
						}
						// strip package qualifier
						val := kv.Value
						if se, ok := val.(*ast.SelectorExpr); ok {
							val = se.Sel
						}
						v, ok := evalConst(val, merged)
						if !ok {
							continue
						}
						switch k {
						case "Detail":
							row.detail, _ = v.(string)
						case "Code":
							row.code, _ = v.(int64)
						}
					}
					rows = append(rows, row)
				}
			}
		}
	}
	sort.Slice(rows, func(i, j int) bool { return rows[i].name < rows[j].name })
	return rows
}

func exprString(e ast.Expr) string {
	switch x := e.(type) {
	case nil:
		return ""
	case *ast.Ident:
		return x.Name
	case *ast.SelectorExpr:
		return exprString(x.X) + "." + x.Sel.Name
	case *ast.StarExpr:
		return "*" + exprString(x.X)
	case *ast.BasicLit:
		return x.Value
	case *ast.CallExpr:
		args := make([]string, len(x.Args))
		for i, a := range x.Args {
			args[i] = exprString(a)
		}
		return exprString(x.Fun) + "(" + strings.Join(args, ",") + ")"
	case *ast.BinaryExpr:
		return exprString(x.X) + x.Op.String() + exprString(x.Y)
	case *ast.UnaryExpr:
		return x.Op.String() + exprString(x.X)
	case *ast.ParenExpr:
		return "(" + exprString(x.X) + ")"
	case *ast.IndexExpr:
		return exprString(x.X) + "[" + exprString(x.Index) + "]"
	case *ast.SliceExpr:
		return exprString(x.X) + "[" + exprString(x.Low) + ":" + exprString(x.High) + "]"
	case *ast.ArrayType:
		return "[]" + exprString(x.Elt)
	case *ast.CompositeLit:
		return exprString(x.Type) + "{…}"
	case *ast.FuncLit:
		return "func{…}"
	case *ast.MapType:
		return "map[" + exprString(x.Key) + "]" + exprString(x.Value)
	case *ast.TypeAssertExpr:
		return exprString(x.X) + ".(" + exprString(x.Type) + ")"
	case *ast.KeyValueExpr:
		return exprString(x.Key) + ":" + exprString(x.Value)
	}
	return fmt.Sprintf("<%T>", e)
}

// ---- functions ----

func findFunc(p *pkg, recv, name string) *ast.FuncDecl {
	for _, f := range p.files {
		for _, d := range f.Decls {
			fd, ok := d.(*ast.FuncDecl)
			if !ok || fd.Name.Name != name {
				continue
			}
			r := ""
			if fd.Recv != nil && len(fd.Recv.List) > 0 {
				r = strings.TrimPrefix(exprString(fd.Recv.List[0].Type), "*")
			}
			if r == recv {
				return fd
			}
		}
	}
	return nil
}

// skeleton: calls whose rendered callee starts with one of the given prefixes (or is in names),
// in source order, with markers for the control structure that contains at least one such call.
type skelCfg struct {
	prefixes []string        // e.g. "m.db.", "m.lightningClient."
	names    map[string]bool // exact callee strings, e.g. "m.verifyProofs"
	rename   func(string) string
}

func (c *skelCfg) match(callee string) (string, bool) {
	for _, p := range c.prefixes {
		if strings.HasPrefix(callee, p) {
			return c.rename(callee), true
		}
	}
	if c.names[callee] {
		return c.rename(callee), true
	}
	return "", false
}

func skeleton(fd *ast.FuncDecl, cfg *skelCfg) []string {
	if fd == nil || fd.Body == nil {
		return []string{"<missing>"}
	}
	return skelBlock(fd.Body.List, cfg)
}

func skelExpr(e ast.Node, cfg *skelCfg) []string {
	var out []string
	if e == nil {
		return out
	}
	ast.Inspect(e, func(n ast.Node) bool {
		switch x := n.(type) {
		case *ast.FuncLit:
			// closures executed inline (MintTokens' func() error {...}()) are walked as blocks
			inner := skelBlock(x.Body.List, cfg)
			if len(inner) > 0 {
				out = append(out, "func{")
				out = append(out, inner...)
				out = append(out, "}")
			}
			return false
		case *ast.CallExpr:
			// arguments first (evaluation order), then the call itself
			for _, a := range x.Args {
				out = append(out, skelExpr(a, cfg)...)
			}
			if fl, ok := x.Fun.(*ast.FuncLit); ok {
				out = append(out, skelExpr(fl, cfg)...)
				return false
			}
			if name, ok := cfg.match(exprString(x.Fun)); ok {
				out = append(out, name)
			}
			return false
		}
		return true
	})
	return out
}

func wrap(open string, inner []string) []string {
	if len(inner) == 0 {
		return nil
	}
	out := []string{open}
	out = append(out, inner...)
	return append(out, "}")
}

func skelStmt(s ast.Stmt, cfg *skelCfg) []string {
	switch x := s.(type) {
	case nil:
		return nil
	case *ast.BlockStmt:
		return skelBlock(x.List, cfg)
	case *ast.IfStmt:
		var out []string
		out = append(out, skelStmt(x.Init, cfg)...)
		out = append(out, skelExpr(x.Cond, cfg)...)
		then := skelBlock(x.Body.List, cfg)
		var els []string
		if x.Else != nil {
			els = skelStmt(x.Else, cfg)
		}
		if len(then) == 0 && len(els) == 0 {
			return out
		}
		out = append(out, "if{")
		out = append(out, then...)
		if len(els) > 0 {
			out = append(out, "}else{")
			out = append(out, els...)
		}
		out = append(out, "}")
		return out
	case *ast.ForStmt:
		var out []string
		out = append(out, skelStmt(x.Init, cfg)...)
		inner := skelExpr(x.Cond, cfg)
		inner = append(inner, skelBlock(x.Body.List, cfg)...)
		inner = append(inner, skelStmt(x.Post, cfg)...)
		return append(out, wrap("for{", inner)...)
	case *ast.RangeStmt:
		out := skelExpr(x.X, cfg)
		return append(out, wrap("for{", skelBlock(x.Body.List, cfg))...)
	case *ast.SwitchStmt:
		var out []string
		out = append(out, skelStmt(x.Init, cfg)...)
		out = append(out, skelExpr(x.Tag, cfg)...)
		var inner []string
		for _, c := range x.Body.List {
			cc := c.(*ast.CaseClause)
			label := "default"
			if len(cc.List) > 0 {
				ls := make([]string, len(cc.List))
				for i, e := range cc.List {
					ls[i] = exprString(e)
				}
				label = strings.Join(ls, "|")
			}
			body := skelBlock(cc.Body, cfg)
			if len(body) > 0 {
				inner = append(inner, "case "+label+"{")
				inner = append(inner, body...)
				inner = append(inner, "}")
			}
		}
		return append(out, wrap("switch{", inner)...)
	case *ast.SelectStmt:
		var inner []string
		for _, c := range x.Body.List {
			cc := c.(*ast.CommClause)
			body := skelStmt(cc.Comm, cfg)
			body = append(body, skelBlock(cc.Body, cfg)...)
			if len(body) > 0 {
				inner = append(inner, "comm{")
				inner = append(inner, body...)
				inner = append(inner, "}")
			}
		}
		return wrap("select{", inner)
	case *ast.GoStmt:
		return wrap("go{", skelExpr(x.Call, cfg))
	case *ast.DeferStmt:
		return wrap("defer{", skelExpr(x.Call, cfg))
	case *ast.LabeledStmt:
		return skelStmt(x.Stmt, cfg)
	default:
		return skelExpr(s, cfg)
	}
}

func skelBlock(list []ast.Stmt, cfg *skelCfg) []string {
	var out []string
	for _, s := range list {
		out = append(out, skelStmt(s, cfg)...)
	}
	return out
}

// ---- routes: r.HandleFunc(path, ms.handler).Methods(...) in setupHttpServer ----

type route struct {
	path    string
	handler string
	methods []string
}

func collectRoutes(fd *ast.FuncDecl) []route {
	var rs []route
	if fd == nil {
		return rs
	}
	ast.Inspect(fd.Body, func(n ast.Node) bool {
		ce, ok := n.(*ast.CallExpr)
		if !ok {
			return true
		}
		sel, ok := ce.Fun.(*ast.SelectorExpr)
		if !ok || sel.Sel.Name != "Methods" {
			return true
		}
		inner, ok := sel.X.(*ast.CallExpr)
		if !ok {
			return true
		}
		isel, ok := inner.Fun.(*ast.SelectorExpr)
		if !ok || isel.Sel.Name != "HandleFunc" || len(inner.Args) != 2 {
			return true
		}
		path, _ := strconv.Unquote(exprString(inner.Args[0]))
		h := exprString(inner.Args[1])
		var ms []string
		for _, a := range ce.Args {
			m := exprString(a)
			m = strings.TrimPrefix(m, "http.Method")
			ms = append(ms, strings.ToUpper(m))
		}
		rs = append(rs, route{path, h, ms})
		return false
	})
	return rs
}

// ---- switch tables: func (x T) String() string { switch x { case A: return "a" … } } ----

func switchTable(fd *ast.FuncDecl) [][2]string {
	var rows [][2]string
	if fd == nil {
		return rows
	}
	ast.Inspect(fd.Body, func(n ast.Node) bool {
		sw, ok := n.(*ast.SwitchStmt)
		if !ok {
			return true
		}
		for _, c := range sw.Body.List {
			cc := c.(*ast.CaseClause)
			label := "default"
			if len(cc.List) > 0 {
				ls := make([]string, len(cc.List))
				for i, e := range cc.List {
					ls[i] = strings.Trim(exprString(e), "\"")
				}
				label = strings.Join(ls, "|")
			}
			ret := ""
			for _, s := range cc.Body {
				if r, ok := s.(*ast.ReturnStmt); ok && len(r.Results) > 0 {
					ret = strings.Trim(exprString(r.Results[0]), "\"")
				}
			}
			rows = append(rows, [2]string{label, ret})
		}
		return false
	})
	return rows
}

// ---- struct fields with json tags ----

func structFields(p *pkg, name string) [][3]string {
	var rows [][3]string
	for _, f := range p.files {
		for _, d := range f.Decls {
			gd, ok := d.(*ast.GenDecl)
			if !ok || gd.Tok != token.TYPE {
				continue
			}
			for _, s := range gd.Specs {
				ts := s.(*ast.TypeSpec)
				if ts.Name.Name != name {
					continue
				}
				st, ok := ts.Type.(*ast.StructType)
				if !ok {
					continue
				}
				for _, fl := range st.Fields.List {
					tag := ""
					if fl.Tag != nil {
						t, _ := strconv.Unquote(fl.Tag.Value)
						if i := strings.Index(t, `json:"`); i >= 0 {
							rest := t[i+6:]
							if j := strings.Index(rest, `"`); j >= 0 {
								tag = rest[:j]
							}
						}
					}
					for _, n := range fl.Names {
						rows = append(rows, [3]string{n.Name, exprString(fl.Type), tag})
					}
				}
			}
		}
	}
	return rows
}

// ---- expression facts: the text of specific argument expressions ----

// callArgs returns the rendered argument lists of every call to `callee` inside fd.
func callArgs(fd *ast.FuncDecl, callee string) [][]string {
	var out [][]string
	if fd == nil {
		return out
	}
	ast.Inspect(fd.Body, func(n ast.Node) bool {
		ce, ok := n.(*ast.CallExpr)
		if !ok {
			return true
		}
		if exprString(ce.Fun) == callee {
			args := make([]string, len(ce.Args))
			for i, a := range ce.Args {
				args[i] = exprString(a)
			}
			out = append(out, args)
		}
		return true
	})
	return out
}

// sqlStrings returns every string literal inside fd that looks like SQL, whitespace-normalised.
func sqlStrings(fd *ast.FuncDecl) []string {
	var out []string
	if fd == nil {
		return out
	}
	ast.Inspect(fd.Body, func(n ast.Node) bool {
		bl, ok := n.(*ast.BasicLit)
		if !ok || bl.Kind != token.STRING {
			return true
		}
		s, err := strconv.Unquote(bl.Value)
		if err != nil {
			return true
		}
		up := strings.ToUpper(s)
		if strings.Contains(up, "SELECT") || strings.Contains(up, "INSERT") || strings.Contains(up, "UPDATE") || strings.Contains(up, "DELETE") {
			out = append(out, strings.Join(strings.Fields(s), " "))
		}
		return true
	})
	return out
}

func main() {
	repo := "/repo"
	outPath := ""
	if len(os.Args) > 1 {
		repo = os.Args[1]
	}
	if len(os.Args) > 2 {
		outPath = os.Args[2]
	}
	var sb strings.Builder
	w := func(format string, a ...any) { fmt.Fprintf(&sb, format, a...) }
	w("/- GENERATED by /verif/extract from %s — do not edit; regenerated on every check run. -/\n", repo)
	w("namespace Gonuts.Gen\n\n")

	cashuP := parseDir(filepath.Join(repo, "cashu"))
	cryptoP := parseDir(filepath.Join(repo, "crypto"))
	mintP := parseDir(filepath.Join(repo, "mint"))
	sqliteP := parseDir(filepath.Join(repo, "mint/storage/sqlite"))
	lnP := parseDir(filepath.Join(repo, "mint/lightning"))
	walletP := parseDir(filepath.Join(repo, "wallet"))
	nut04P := parseDir(filepath.Join(repo, "cashu/nuts/nut04"))
	nut05P := parseDir(filepath.Join(repo, "cashu/nuts/nut05"))
	nut07P := parseDir(filepath.Join(repo, "cashu/nuts/nut07"))
	nut10P := parseDir(filepath.Join(repo, "cashu/nuts/nut10"))
	nut11P := parseDir(filepath.Join(repo, "cashu/nuts/nut11"))
	nut13P := parseDir(filepath.Join(repo, "cashu/nuts/nut13"))
	nut14P := parseDir(filepath.Join(repo, "cashu/nuts/nut14"))
	nut20P := parseDir(filepath.Join(repo, "cashu/nuts/nut20"))

	cashuC := collectConsts(cashuP)
	cryptoC := collectConsts(cryptoP)
	mintC := collectConsts(mintP)
	lnC := collectConsts(lnP)
	nut11C := collectConsts(nut11P)
	nut14C := collectConsts(nut14P)

	// --- constants ---
	w("/-! ## constants -/\n")
	emitConst := func(lean string, env constEnv, goName string) {
		v, ok := env[goName]
		if !ok {
			w("def %s : String := \"<missing %s>\"\n", lean, goName)
			return
		}
		switch x := v.(type) {
		case int64:
			w("def %s : Nat := %d\n", lean, x)
		case string:
			w("def %s : String := %s\n", lean, leanStr(x))
		}
	}
	emitConst("maxSecretLength", cashuC, "MAX_SECRET_LENGTH")
	emitConst("bolt11Method", cashuC, "BOLT11_METHOD")
	emitConst("maxOrder", cryptoC, "MAX_ORDER")
	emitConst("domainSeparator", cryptoC, "DomainSeparator")
	emitConst("cacheItemTtl", mintC, "CACHE_ITEM_TTL")
	emitConst("cacheItemsLimit", mintC, "CACHE_ITEMS_LIMIT")
	emitConst("requestBodySizeLimit", mintC, "REQUEST_BODY_SIZE_LIMIT")
	emitConst("activeKeysetKey", mintC, "ACTIVE_KEYSET")
	emitConst("keysetTtl", mintC, "KEYSET_TTL")
	emitConst("quoteExpiryMins", mintC, "QuoteExpiryMins")
	emitConst("feePercent", lnC, "FeePercent")
	emitConst("invoiceExpiryTime", lnC, "InvoiceExpiryTime")
	for _, n := range []string{"SIGFLAG", "NSIGS", "PUBKEYS", "LOCKTIME", "REFUND", "SIGINPUTS", "SIGALL"} {
		emitConst("nut11_"+n, nut11C, n)
	}
	emitConst("nut11ErrCode", nut11C, "NUT11ErrCode")
	emitConst("nut14ErrCode", nut14C, "NUT14ErrCode")

	// --- error codes and error table ---
	w("\n/-! ## error codes and variables -/\n")
	w("def errCodes : List (String × Nat) := [\n")
	var codeNames []string
	for k, v := range cashuC {
		if _, ok := v.(int64); ok && (strings.HasSuffix(k, "ErrCode") || k == "AmountLimitExceeded") {
			codeNames = append(codeNames, k)
		}
	}
	sort.Strings(codeNames)
	for i, k := range codeNames {
		sep := ","
		if i == len(codeNames)-1 {
			sep = ""
		}
		w("  (%s, %d)%s\n", leanStr(k), cashuC[k].(int64), sep)
	}
	w("]\n\n")
	emitErrs := func(lean string, rows []errRow) {
		w("def %s : List (String × String × Nat) := [\n", lean)
		for i, r := range rows {
			sep := ","
			if i == len(rows)-1 {
				sep = ""
			}
			w("  (%s, %s, %d)%s\n", leanStr(r.name), leanStr(r.detail), r.code, sep)
		}
		w("]\n\n")
	}
	emitErrs("errTable", collectErrors(cashuP, cashuC, nil))
	emitErrs("nut11Errs", collectErrors(nut11P, nut11C, cashuC))
	emitErrs("nut14Errs", collectErrors(nut14P, nut14C, cashuC))

	// --- enum tables ---
	w("/-! ## enum string tables (case label, returned value) -/\n")
	emitTable := func(lean string, rows [][2]string) {
		w("def %s : List (String × String) := [", lean)
		for i, r := range rows {
			if i > 0 {
				w(", ")
			}
			w("(%s, %s)", leanStr(r[0]), leanStr(r[1]))
		}
		w("]\n")
	}
	emitTable("nut04_String", switchTable(findFunc(nut04P, "State", "String")))
	emitTable("nut04_StringToState", switchTable(findFunc(nut04P, "", "StringToState")))
	emitTable("nut05_String", switchTable(findFunc(nut05P, "State", "String")))
	emitTable("nut05_StringToState", switchTable(findFunc(nut05P, "", "StringToState")))
	emitTable("nut07_String", switchTable(findFunc(nut07P, "State", "String")))
	emitTable("nut07_StringToState", switchTable(findFunc(nut07P, "", "StringToState")))
	emitTable("nut10_KindString", switchTable(findFunc(nut10P, "SecretKind", "String")))
	emitTable("nut10_KindParse", switchTable(findFunc(nut10P, "", "DeserializeSecret")))
	emitTable("unit_String", switchTable(findFunc(cashuP, "Unit", "String")))

	// --- routes ---
	w("\n/-! ## HTTP routes (path, methods, handler) -/\n")
	w("def routes : List (String × List String × String) := [\n")
	rs := collectRoutes(findFunc(mintP, "MintServer", "setupHttpServer"))
	for i, r := range rs {
		sep := ","
		if i == len(rs)-1 {
			sep = ""
		}
		w("  (%s, %s, %s)%s\n", leanStr(r.path), leanStrList(r.methods), leanStr(r.handler), sep)
	}
	w("]\n")

	// --- struct json tags ---
	w("\n/-! ## struct fields (name, type, json tag) -/\n")
	emitFields := func(lean string, rows [][3]string) {
		w("def %s : List (String × String × String) := [", lean)
		for i, r := range rows {
			if i > 0 {
				w(", ")
			}
			w("(%s, %s, %s)", leanStr(r[0]), leanStr(r[1]), leanStr(r[2]))
		}
		w("]\n")
	}
	emitFields("fields_Proof", structFields(cashuP, "Proof"))
	emitFields("fields_DLEQProof", structFields(cashuP, "DLEQProof"))
	emitFields("fields_BlindedMessage", structFields(cashuP, "BlindedMessage"))
	emitFields("fields_BlindedSignature", structFields(cashuP, "BlindedSignature"))
	emitFields("fields_TokenV3", structFields(cashuP, "TokenV3"))
	emitFields("fields_TokenV3Proof", structFields(cashuP, "TokenV3Proof"))
	emitFields("fields_TokenV4", structFields(cashuP, "TokenV4"))
	emitFields("fields_TokenV4Proof", structFields(cashuP, "TokenV4Proof"))
	emitFields("fields_ProofV4", structFields(cashuP, "ProofV4"))
	emitFields("fields_nut10_SecretData", structFields(nut10P, "SecretData"))
	emitFields("fields_DLEQV4", structFields(cashuP, "DLEQV4"))
	emitFields("fields_Error", structFields(cashuP, "Error"))
	emitFields("fields_MintQuoteResponse", structFields(nut04P, "PostMintQuoteBolt11Response"))
	emitFields("fields_MeltQuoteResponse", structFields(nut05P, "PostMeltQuoteBolt11Response"))
	emitFields("fields_ProofState", structFields(nut07P, "ProofState"))

	// --- effect skeletons ---
	w("\n/-! ## effect skeletons: storage / Lightning / helper calls in source order with branch nesting -/\n")
	mintHelpers := map[string]bool{}
	for _, h := range []string{"m.verifyProofs", "m.settleProofs", "m.settleQuotesInternally", "m.removePendingProofsForQuote",
		"m.GetMintQuoteState", "m.GetMeltQuoteState", "m.TotalBalance", "m.signBlindedMessages", "m.requestInvoice",
		"m.TransactionFees", "m.checkInvoicePaid", "m.RotateKeyset", "mint.RotateKeyset", "verifyBlindedMessages",
		"nut11.ProofsSigAll", "cashu.CheckDuplicateProofs", "cashu.CheckDuplicateBlindedMessages",
		"blindedMessages.AmountChecked", "cashu.UnderflowSubUint64", "nut20.VerifyMintQuoteSignature",
		"nut11.VerifyP2PKLockedProof", "nut14.VerifyHTLCProof", "crypto.Verify", "invoiceSub.Recv", "crypto.GenerateKeyset"} {
		mintHelpers[h] = true
	}
	mintCfg := &skelCfg{
		prefixes: []string{"m.db.", "m.lightningClient.", "db.", "config.LightningClient.", "mint.db."},
		names:    mintHelpers,
		rename: func(s string) string {
			s = strings.TrimPrefix(s, "m.")
			s = strings.TrimPrefix(s, "mint.")
			s = strings.Replace(s, "lightningClient.", "ln.", 1)
			s = strings.Replace(s, "config.LightningClient.", "ln.", 1)
			return s
		},
	}
	emitSkel := func(lean string, sk []string) {
		w("def %s : List String := %s\n", lean, leanStrList(sk))
	}
	for _, fn := range []string{"RequestMintQuote", "GetMintQuoteState", "MintTokens", "Swap", "RequestMeltQuote",
		"GetMeltQuoteState", "MeltTokens", "settleQuotesInternally", "settleProofs", "removePendingProofsForQuote",
		"ProofsStateCheck", "RestoreSignatures", "verifyProofs", "RotateKeyset", "checkInvoicePaid", "TotalBalance",
		"signBlindedMessages", "RetrieveMintInfo"} {
		fd := findFunc(mintP, "Mint", fn)
		emitSkel("skel_"+fn, skeleton(fd, mintCfg))
	}
	emitSkel("skel_LoadMint", skeleton(findFunc(mintP, "", "LoadMint"), mintCfg))
	emitSkel("skel_verifyBlindedMessages", skeleton(findFunc(mintP, "", "verifyBlindedMessages"), &skelCfg{
		names: map[string]bool{"nut11.PublicKeys": true, "nut11.ParseP2PKTags": true, "nut11.IsSigAll": true,
			"nut11.DuplicateSignatures": true, "nut11.HasValidSignatures": true, "reflect.DeepEqual": true, "nut10.DeserializeSecret": true},
		rename: func(s string) string { return s }}))

	// wallet skeletons
	walletHelpers := map[string]bool{}
	for _, h := range []string{"w.getProofsForAmount", "w.swapToSend", "w.selectProofsForAmount", "w.createSwapRequest", "swap",
		"w.swapToTrusted", "w.swapProofs", "w.MintTokens", "w.MintQuoteState", "w.CheckMeltQuoteState", "w.RequestMint",
		"w.createBlindedMessages", "constructProofs", "w.getActiveKeyset", "w.counterForKeyset", "w.AddMint",
		"nut11.AddSignatureToInputs", "nut11.AddSignatureToOutputs", "nut14.AddWitnessHTLC", "nut14.AddWitnessHTLCToOutputs",
		"selectProofsToSend", "blindedMessagesFromSpendingCondition", "w.splitWalletTarget", "feesForProofs", "feesForCount",
		"cashu.AmountSplit", "nut12.VerifyProofsDLEQ", "verifyProofsDLEQ", "generateDeterministicSecret"} {
		walletHelpers[h] = true
	}
	walletCfg := &skelCfg{
		prefixes: []string{"w.db.", "client.", "db."},
		names:    walletHelpers,
		rename:   func(s string) string { return strings.TrimPrefix(s, "w.") },
	}
	for _, fn := range []string{"MintTokens", "Send", "swapToSend", "getProofsForAmount", "Receive", "ReceiveHTLC", "Melt",
		"CheckMeltQuoteState", "ReclaimUnspentProofs", "RemoveSpentProofs", "swapProofs", "MintSwap", "swapToTrusted",
		"createSwapRequest", "selectProofsForAmount", "RequestMint", "MintQuoteState", "RequestMeltQuote"} {
		emitSkel("wskel_"+fn, skeleton(findFunc(walletP, "Wallet", fn), walletCfg))
	}
	// (F19) the per-keyset DLEQ verification of Receive / ReceiveHTLC
	emitSkel("wskel_verifyProofsDLEQ", skeleton(findFunc(walletP, "", "verifyProofsDLEQ"), &skelCfg{
		names:  map[string]bool{"GetKeysetKeys": true, "nut12.VerifyProofsDLEQ": true},
		rename: func(s string) string { return s }}))
	emitSkel("wskel_Restore", skeleton(findFunc(walletP, "", "Restore"), walletCfg))
	emitSkel("wskel_swap", skeleton(findFunc(walletP, "", "swap"), walletCfg))
	emitSkel("wskel_selectProofsToSend", skeleton(findFunc(walletP, "", "selectProofsToSend"), walletCfg))

	// --- expression facts ---
	w("\n/-! ## expression facts (rendered argument expressions) -/\n")
	emitArgs := func(lean string, rows [][]string) {
		w("def %s : List (List String) := [", lean)
		for i, r := range rows {
			if i > 0 {
				w(", ")
			}
			w("%s", leanStrList(r))
		}
		w("]\n")
	}
	melt := findFunc(mintP, "Mint", "MeltTokens")
	emitArgs("args_SendPayment", callArgs(melt, "m.lightningClient.SendPayment"))
	emitArgs("args_PayPartialAmount", callArgs(melt, "m.lightningClient.PayPartialAmount"))
	emitArgs("args_IncrementKeysetCounter_Restore", callArgs(findFunc(walletP, "", "Restore"), "db.IncrementKeysetCounter"))
	emitArgs("args_cacheGet_swap", callArgs(findFunc(mintP, "MintServer", "swapRequest"), "ms.cache.Get"))
	emitArgs("args_cacheSet_swap", callArgs(findFunc(mintP, "MintServer", "swapRequest"), "ms.cache.Set"))
	emitArgs("args_cacheGet_mint", callArgs(findFunc(mintP, "MintServer", "mintTokensRequest"), "ms.cache.Get"))
	emitArgs("args_cacheSet_mint", callArgs(findFunc(mintP, "MintServer", "mintTokensRequest"), "ms.cache.Set"))
	emitArgs("args_nut13_Derive", callArgs(findFunc(nut13P, "", "DeriveKeysetPath"), "master.Derive"))
	emitArgs("args_nut13_Derive2", append(callArgs(findFunc(nut13P, "", "DeriveKeysetPath"), "purpose.Derive"),
		callArgs(findFunc(nut13P, "", "DeriveKeysetPath"), "coinType.Derive")...))
	emitArgs("args_nut13_secret", callArgs(findFunc(nut13P, "", "DeriveSecret"), "counterPath.Derive"))
	emitArgs("args_nut13_r", callArgs(findFunc(nut13P, "", "DeriveBlindingFactor"), "counterPath.Derive"))
	emitArgs("args_nut20_verify", callArgs(findFunc(nut20P, "", "VerifyMintQuoteSignature"), "signature.Verify"))
	emitArgs("args_htlcOutputsHash", callArgs(findFunc(nut14P, "", "AddWitnessHTLCToOutputs"), "sha256.Sum256"))

	// which handlers touch the cache
	var cacheUsers []string
	for _, f := range mintP.files {
		for _, d := range f.Decls {
			fd, ok := d.(*ast.FuncDecl)
			if !ok || fd.Body == nil || fd.Recv == nil {
				continue
			}
			uses := false
			ast.Inspect(fd.Body, func(n ast.Node) bool {
				if se, ok := n.(*ast.SelectorExpr); ok && exprString(se) == "ms.cache" {
					uses = true
				}
				return true
			})
			if uses {
				cacheUsers = append(cacheUsers, fd.Name.Name)
			}
		}
	}
	sort.Strings(cacheUsers)
	w("def cacheUsers : List String := %s\n", leanStrList(cacheUsers))

	// --- SQL text of the storage methods ---
	w("\n/-! ## SQL statements of the storage methods (whitespace-normalised) -/\n")
	var sqlFns []string
	for _, f := range sqliteP.files {
		for _, d := range f.Decls {
			if fd, ok := d.(*ast.FuncDecl); ok && fd.Recv != nil {
				sqlFns = append(sqlFns, fd.Name.Name)
			}
		}
	}
	sort.Strings(sqlFns)
	w("def sqlText : List (String × List String) := [\n")
	for i, fn := range sqlFns {
		sep := ","
		if i == len(sqlFns)-1 {
			sep = ""
		}
		w("  (%s, %s)%s\n", leanStr(fn), leanStrList(sqlStrings(findFunc(sqliteP, "SQLiteDB", fn))), sep)
	}
	w("]\n")

	// migrations: normalised text of every up migration
	migDir := filepath.Join(repo, "mint/storage/sqlite/migrations")
	ents, _ := os.ReadDir(migDir)
	var migs []string
	for _, e := range ents {
		if strings.HasSuffix(e.Name(), ".up.sql") {
			migs = append(migs, e.Name())
		}
	}
	sort.Strings(migs)
	w("def migrations : List (String × String) := [\n")
	for i, m := range migs {
		b, _ := os.ReadFile(filepath.Join(migDir, m))
		sep := ","
		if i == len(migs)-1 {
			sep = ""
		}
		w("  (%s, %s)%s\n", leanStr(m), leanStr(strings.Join(strings.Fields(string(b)), " ")), sep)
	}
	w("]\n")

	// --- source text of the pure wallet selection / fee / split functions (agent "select", C18) ---
	emitSelectFacts(w, walletP, cashuP, mintP)

	// --- spending conditions (C12/C13): pinned bodies of the functions Model.Spend mirrors ---
	emitSpendFacts(w, nut10P, nut11P, nut14P, mintP)

	// --- C11 / C10 / C09: glue of the derivation functions (see emitSpecFacts below) ---
	emitSpecFacts(w, cryptoP, nut13P, walletP)
	emitHardenedKeyStart(w, repo)

	// --- token functions (C14) ---
	emitTokenFacts(w, cashuP)
	emitTokenCallers(w, parseDir(filepath.Join(repo, "cmd/nutw")))

	// --- composite literals that build the wallet's requests (agent "privacy", C08) ---
	emitWalletWireFacts(w, repo, walletP, cashuP)

	// --- HTTP surface: per-handler error mapping, decode classes, cache source text, more struct tags (agent "wire", C20) ---
	emitWireFacts(w, repo, mintP, cashuP, cryptoP, nut04P, nut05P, nut07P)

	// --- the Lightning backend clients: bodies of the lightning.Client methods of the real backends (frozen: the
	// models treat the backend as an oracle, so what the clients tell the mint about a node's answers is pinned here) ---
	emitLnClientFacts(w, lnP)
	emitMeltQuoteFacts(w, mintP)

	w("\nend Gonuts.Gen\n")

	// --- translated code (Gonuts/Gen/Code.lean) ---
	if len(os.Args) > 3 {
		code := emitCode(
			map[string]*pkg{"cashu": cashuP, "crypto": cryptoP, "mint": mintP, "wallet": walletP, "nut04": nut04P, "nut05": nut05P,
				"nut07": nut07P, "nut10": nut10P, "nut11": nut11P, "nut14": nut14P},
			map[string]constEnv{"cashu": cashuC, "crypto": cryptoC, "mint": mintC, "nut04": collectConsts(nut04P), "nut05": collectConsts(nut05P),
				"nut07": collectConsts(nut07P), "nut10": collectConsts(nut10P), "nut11": nut11C, "nut14": nut14C},
			[]trTarget{
				{"cashu", "", "OverflowAddUint64"}, {"cashu", "", "UnderflowSubUint64"},
				{"cashu", "BlindedMessages", "Amount"}, {"cashu", "BlindedMessages", "AmountChecked"},
				{"cashu", "BlindedSignatures", "Amount"}, {"cashu", "Proofs", "Amount"},
				{"cashu", "", "AmountSplit"}, {"cashu", "", "CheckDuplicateBlindedMessages"},
				{"cashu", "", "Max"}, {"cashu", "", "Count"},
				{"cashu", "TokenV3", "Proofs"}, {"cashu", "TokenV3", "Amount"},
				{"wallet", "", "feesForProofs"}, {"wallet", "", "feesForCount"},
				{"mint", "Mint", "TransactionFees"},
				{"wallet", "", "inputsWithoutDLEQ"},
				{"nut11", "", "IsSigAll"}, {"nut11", "", "DuplicateSignatures"}, {"nut11", "", "ParseP2PKTags"}, {"nut11", "", "HasValidSignatures"}, {"nut11", "", "VerifyP2PKLockedProof"}, {"nut11", "", "PublicKeys"}, {"nut11", "", "ProofsSigAll"}, {"nut14", "", "VerifyHTLCProof"},
				// (mint.verifyBlindedMessages translates as well - all its callees are tied - but its equality with the model's
				// two-loop function over per-output messages is not proved yet; it stays with Tie.Spend's frozen text and the streams)
				{"nut10", "SecretKind", "String"},
				{"nut04", "State", "String"}, {"nut04", "", "StringToState"},
				{"nut05", "State", "String"}, {"nut05", "", "StringToState"},
				{"nut07", "State", "String"}, {"nut07", "", "StringToState"},
			})
		if err := os.WriteFile(os.Args[3], []byte(code), 0644); err != nil {
			fail("write: %v", err)
		}
	}

	if outPath == "" {
		fmt.Print(sb.String())
		return
	}
	old, err := os.ReadFile(outPath)
	if err == nil && string(old) == sb.String() {
		return // unchanged: keep mtime so nothing rebuilds
	}
	if err := os.WriteFile(outPath, []byte(sb.String()), 0644); err != nil {
		fail("write: %v", err)
	}
}

// ============================================================================================
// C18 (agent "select"): source-text facts for the pure functions Model/Select.lean mirrors.
// Data only: the go/printer rendering of each function (signature + body, comments dropped,
// one trimmed line per entry, blank lines removed) and, for swapToSend — which mixes the
// arithmetic with storage and HTTP calls that other properties' fixes touch — only the
// statements that define or test the amount / fee / split variables.
// Gonuts/Tie/Select.lean proves each equal to the text the model was written against.
// ============================================================================================

func nodeText(n ast.Node) string {
	var buf bytes.Buffer
	if err := printer.Fprint(&buf, fset, n); err != nil {
		return "<print error: " + err.Error() + ">"
	}
	return buf.String()
}

func srcLines(fd *ast.FuncDecl) []string {
	if fd == nil || fd.Body == nil {
		return []string{"<missing>"}
	}
	cp := *fd
	cp.Doc = nil
	var out []string
	for _, l := range strings.Split(nodeText(&cp), "\n") {
		l = strings.TrimSpace(l)
		if l != "" && !strings.HasPrefix(l, "//") {
			out = append(out, l)
		}
	}
	return out
}

func mentions(n ast.Node, names map[string]bool) bool {
	found := false
	ast.Inspect(n, func(x ast.Node) bool {
		if id, ok := x.(*ast.Ident); ok && names[id.Name] {
			found = true
		}
		return !found
	})
	return found
}

// varStatements: in source order, every assignment whose left-hand side is one of `names`
// ("x := e", "x = e", "x += e"), every `if` condition that mentions one of them ("if c"),
// and every call statement / call on the right-hand side that takes one of them as an argument
// and whose callee is in `calls` ("call f(args)").
func varStatements(fd *ast.FuncDecl, names map[string]bool, calls map[string]bool) []string {
	var out []string
	if fd == nil || fd.Body == nil {
		return []string{"<missing>"}
	}
	oneLine := func(n ast.Node) string { return strings.Join(strings.Fields(nodeText(n)), " ") }
	ast.Inspect(fd.Body, func(n ast.Node) bool {
		switch x := n.(type) {
		case *ast.AssignStmt:
			for _, l := range x.Lhs {
				if id, ok := l.(*ast.Ident); ok && names[id.Name] {
					out = append(out, oneLine(x))
					return true
				}
			}
		case *ast.DeclStmt:
			if mentions(x, names) {
				out = append(out, oneLine(x))
			}
		case *ast.IfStmt:
			if mentions(x.Cond, names) {
				out = append(out, "if "+oneLine(x.Cond))
			}
		case *ast.CallExpr:
			if calls[exprString(x.Fun)] {
				for _, a := range x.Args {
					if mentions(a, names) {
						out = append(out, "call "+oneLine(x))
						break
					}
				}
			}
		}
		return true
	})
	return out
}

func emitSelectFacts(w func(string, ...any), walletP, cashuP, mintP *pkg) {
	w("\n/-! ## source text of the pure selection / fee / split functions (C18) -/\n")
	emit := func(lean string, lines []string) {
		w("def %s : List String := [\n", lean)
		for i, l := range lines {
			sep := ","
			if i == len(lines)-1 {
				sep = ""
			}
			w("  %s%s\n", leanStr(l), sep)
		}
		w("]\n")
	}
	emit("src_selectProofsToSend", srcLines(findFunc(walletP, "", "selectProofsToSend")))
	emit("src_selectProofsForAmount", srcLines(findFunc(walletP, "Wallet", "selectProofsForAmount")))
	emit("src_getProofsForAmount", srcLines(findFunc(walletP, "Wallet", "getProofsForAmount")))
	emit("src_splitWalletTarget", srcLines(findFunc(walletP, "Wallet", "splitWalletTarget")))
	emit("src_calculateBlankOutputs", srcLines(findFunc(walletP, "", "calculateBlankOutputs")))
	emit("src_feesForProofs", srcLines(findFunc(walletP, "", "feesForProofs")))
	emit("src_feesForCount", srcLines(findFunc(walletP, "", "feesForCount")))
	emit("src_getProofsFromMint", srcLines(findFunc(walletP, "Wallet", "getProofsFromMint")))
	emit("src_AmountSplit", srcLines(findFunc(cashuP, "", "AmountSplit")))
	emit("src_Count", srcLines(findFunc(cashuP, "", "Count")))
	emit("src_Max", srcLines(findFunc(cashuP, "", "Max")))
	emit("src_ProofsAmount", srcLines(findFunc(cashuP, "Proofs", "Amount")))
	emit("src_TransactionFees", srcLines(findFunc(mintP, "Mint", "TransactionFees")))
	names := map[string]bool{"amount": true, "feesToReceive": true, "splitForSendAmount": true, "split": true,
		"proofsToSwap": true, "proofsAmount": true, "fees": true, "changeAmount": true, "changeSplit": true}
	calls := map[string]bool{"slices.Sort": true, "w.selectProofsForAmount": true, "w.splitWalletTarget": true,
		"feesForCount": true, "feesForProofs": true, "cashu.AmountSplit": true, "w.createBlindedMessages": true,
		"blindedMessagesFromSpendingCondition": true}
	emit("stmts_swapToSend_amounts", varStatements(findFunc(walletP, "Wallet", "swapToSend"), names, calls))
	// createSwapRequest (Receive path) uses the same fee / split helpers
	emit("stmts_createSwapRequest_amounts", varStatements(findFunc(walletP, "Wallet", "createSwapRequest"),
		map[string]bool{"fees": true, "split": true, "proofs": true}, map[string]bool{"feesForProofs": true, "w.splitWalletTarget": true}))
}

// ---- spending conditions (C12, C13) ------------------------------------------------------------
// Model.Spend mirrors a dozen small functions line by line.  Besides constants and skeletons, the
// tie pins their BODIES: each body is printed by go/printer without comments, one trimmed non-empty
// line per list element.  Tie/Spend.lean states the expected text; any edit of these functions
// breaks the tie and forces the model to be re-read against the source.

func bodyLines(fd *ast.FuncDecl) []string {
	if fd == nil || fd.Body == nil {
		return []string{"<missing>"}
	}
	var buf bytes.Buffer
	cfg := printer.Config{Mode: printer.RawFormat, Tabwidth: 1}
	if err := cfg.Fprint(&buf, fset, fd.Body); err != nil {
		return []string{"<print error: " + err.Error() + ">"}
	}
	var out []string
	for _, l := range strings.Split(buf.String(), "\n") {
		l = strings.Join(strings.Fields(l), " ")
		if l != "" {
			out = append(out, l)
		}
	}
	return out
}

func emitSpendFacts(w func(string, ...any), nut10P, nut11P, nut14P, mintP *pkg) {
	w("\n/-! ## spending conditions: bodies of the functions mirrored by Model.Spend (go/printer, comments stripped) -/\n")
	emit := func(lean string, fd *ast.FuncDecl) {
		w("def %s : List String := %s\n", lean, leanStrList(bodyLines(fd)))
	}
	for _, fn := range []string{"ParseP2PKTags", "PublicKeys", "ProofsSigAll", "IsSigAll", "DuplicateSignatures", "HasValidSignatures",
		"VerifyP2PKLockedProof", "AddSignatureToInputs", "AddSignatureToOutputs"} {
		emit("body_nut11_"+fn, findFunc(nut11P, "", fn))
	}
	for _, fn := range []string{"VerifyHTLCProof", "AddWitnessHTLC", "AddWitnessHTLCToOutputs"} {
		emit("body_nut14_"+fn, findFunc(nut14P, "", fn))
	}
	emit("body_mint_verifyBlindedMessages", findFunc(mintP, "", "verifyBlindedMessages"))
	// the text of a secret: Model.Nut10Parse mirrors DeserializeSecret (and reads what SerializeSecret writes)
	emit("body_nut10_DeserializeSecret", findFunc(nut10P, "", "DeserializeSecret"))
	emit("body_nut10_SerializeSecret", findFunc(nut10P, "", "SerializeSecret"))
	// what the two output-signing helpers hash, and what they hex-decode
	w("def args_p2pkOutputsHash : List (List String) := [")
	for i, r := range callArgs(findFunc(nut11P, "", "AddSignatureToOutputs"), "sha256.Sum256") {
		if i > 0 {
			w(", ")
		}
		w("%s", leanStrList(r))
	}
	w("]\n")
	for _, x := range []struct {
		lean string
		fd   *ast.FuncDecl
	}{{"args_p2pkOutputsDecode", findFunc(nut11P, "", "AddSignatureToOutputs")}, {"args_htlcOutputsDecode", findFunc(nut14P, "", "AddWitnessHTLCToOutputs")}} {
		w("def %s : List (List String) := [", x.lean)
		for i, r := range callArgs(x.fd, "hex.DecodeString") {
			if i > 0 {
				w(", ")
			}
			w("%s", leanStrList(r))
		}
		w("]\n")
	}
}

// ---------------------------------------------------------------------------------------------
// C11 (derivations match the Cashu spec), reused by C10 / C09: the glue around the library calls in
// crypto/bdhke.go HashToCurve, crypto/keyset.go DeriveKeysetId / DeriveKeysetPath / GenerateKeyset,
// cashu/nuts/nut13 and wallet/p2pk.go, as canonical source text (go/printer) plus the numeric value
// of the constant expressions.  Gonuts/Tie/Spec.lean equates each with what Gonuts/Spec/* uses.
// Everything below is additive and only used by emitSpecFacts.
// ---------------------------------------------------------------------------------------------

// srcText renders a node as gofmt would print it, on one line.
func srcText(n ast.Node) string {
	if n == nil {
		return ""
	}
	var buf bytes.Buffer
	if err := printer.Fprint(&buf, fset, n); err != nil {
		return "<unprintable>"
	}
	return strings.Join(strings.Fields(buf.String()), " ")
}

// assignedExprs returns the source text of every expression assigned to (or declared as) `name` inside fd.
func assignedExprs(fd *ast.FuncDecl, name string) []string {
	var out []string
	if fd == nil || fd.Body == nil {
		return []string{"<missing>"}
	}
	ast.Inspect(fd.Body, func(n ast.Node) bool {
		switch x := n.(type) {
		case *ast.AssignStmt:
			for i, l := range x.Lhs {
				if id, ok := l.(*ast.Ident); ok && id.Name == name {
					if len(x.Rhs) == len(x.Lhs) {
						out = append(out, srcText(x.Rhs[i]))
					} else if len(x.Rhs) == 1 {
						out = append(out, srcText(x.Rhs[0]))
					}
				}
			}
		case *ast.ValueSpec:
			for i, id := range x.Names {
				if id.Name == name {
					t := ""
					if x.Type != nil {
						t = srcText(x.Type) + " = "
					}
					if i < len(x.Values) {
						out = append(out, t+srcText(x.Values[i]))
					}
				}
			}
		}
		return true
	})
	return out
}

// callArgsSrc is callArgs with go/printer text (keeps `x...`, composite literal elements, spacing).
func callArgsSrc(fd *ast.FuncDecl, callee string) [][]string {
	var out [][]string
	if fd == nil || fd.Body == nil {
		return [][]string{{"<missing>"}}
	}
	ast.Inspect(fd.Body, func(n ast.Node) bool {
		ce, ok := n.(*ast.CallExpr)
		if !ok {
			return true
		}
		if srcText(ce.Fun) == callee {
			args := make([]string, len(ce.Args))
			for i, a := range ce.Args {
				args[i] = srcText(a)
				if i == len(ce.Args)-1 && ce.Ellipsis.IsValid() {
					args[i] += "..."
				}
			}
			out = append(out, args)
		}
		return true
	})
	return out
}

// forHeaders returns "init; cond; post" of every for statement in fd.
func forHeaders(fd *ast.FuncDecl) []string {
	var out []string
	if fd == nil || fd.Body == nil {
		return []string{"<missing>"}
	}
	ast.Inspect(fd.Body, func(n ast.Node) bool {
		if fs, ok := n.(*ast.ForStmt); ok {
			out = append(out, srcText(fs.Init)+"; "+srcText(fs.Cond)+"; "+srcText(fs.Post))
		}
		return true
	})
	return out
}

// returnsOf returns the text of the results of every return statement of fd itself (closures excluded)
// and, separately, of the function literals inside it.
func returnsOf(fd *ast.FuncDecl) (own []string, lits []string) {
	if fd == nil || fd.Body == nil {
		return []string{"<missing>"}, nil
	}
	var walk func(n ast.Node, inLit bool)
	walk = func(n ast.Node, inLit bool) {
		ast.Inspect(n, func(m ast.Node) bool {
			switch x := m.(type) {
			case *ast.FuncLit:
				if m != n {
					walk(x.Body, true)
					return false
				}
			case *ast.ReturnStmt:
				rs := make([]string, len(x.Results))
				for i, r := range x.Results {
					rs[i] = srcText(r)
				}
				if inLit {
					lits = append(lits, strings.Join(rs, ", "))
				} else {
					own = append(own, strings.Join(rs, ", "))
				}
			}
			return true
		})
	}
	walk(fd.Body, false)
	return
}

// specConst evaluates the integer constant expressions that occur in the glue: literals, + - * << and
// parentheses (evalConst), and math.Exp2(k) for a constant k.
func specConst(e ast.Expr) (int64, bool) {
	if ce, ok := e.(*ast.CallExpr); ok && len(ce.Args) == 1 {
		switch srcText(ce.Fun) {
		case "math.Exp2":
			if k, ok := specConst(ce.Args[0]); ok && k >= 0 && k < 62 {
				return 1 << uint(k), true
			}
			return 0, false
		case "uint32", "uint64", "int":
			return specConst(ce.Args[0])
		}
	}
	v, ok := evalConst(e, constEnv{})
	if !ok {
		return 0, false
	}
	i, ok := v.(int64)
	return i, ok
}

// firstExpr finds the first expression node in fd whose source text equals want.
func firstExpr(fd *ast.FuncDecl, want string) ast.Expr {
	var found ast.Expr
	if fd == nil || fd.Body == nil {
		return nil
	}
	ast.Inspect(fd.Body, func(n ast.Node) bool {
		if found != nil {
			return false
		}
		if e, ok := n.(ast.Expr); ok && srcText(e) == want {
			found = e
			return false
		}
		return true
	})
	return found
}

func emitSpecFacts(w func(string, ...any), cryptoP, nut13P, walletP *pkg) {
	w("\n/-! ## C11: glue of hash_to_curve, keyset id, keyset paths, NUT-13, P2PK key (canonical source text) -/\n")
	strs := func(lean string, xs []string) { w("def %s : List String := %s\n", lean, leanStrList(xs)) }
	args := func(lean string, rows [][]string) {
		w("def %s : List (List String) := [", lean)
		for i, r := range rows {
			if i > 0 {
				w(", ")
			}
			w("%s", leanStrList(r))
		}
		w("]\n")
	}
	num := func(lean string, fd *ast.FuncDecl, exprText string) {
		e := firstExpr(fd, exprText)
		if e == nil {
			w("def %s : String := \"<missing %s>\"\n", lean, exprText)
			return
		}
		v, ok := specConst(e)
		if !ok {
			w("def %s : String := \"<not constant %s>\"\n", lean, exprText)
			return
		}
		w("def %s : Nat := %d\n", lean, v)
	}

	// crypto/bdhke.go HashToCurve
	h2c := findFunc(cryptoP, "", "HashToCurve")
	args("spec_h2c_sha256Args", callArgsSrc(h2c, "sha256.Sum256"))
	strs("spec_h2c_counterDecl", assignedExprs(h2c, "counter"))
	strs("spec_h2c_for", forHeaders(h2c))
	num("spec_h2c_bound", h2c, "math.Exp2(16)")
	strs("spec_h2c_counterBuf", assignedExprs(h2c, "c"))
	args("spec_h2c_putLE", callArgsSrc(h2c, "binary.LittleEndian.PutUint32"))
	args("spec_h2c_putBE", callArgsSrc(h2c, "binary.BigEndian.PutUint32"))
	strs("spec_h2c_pkHash", assignedExprs(h2c, "pkHash"))
	args("spec_h2c_parse", callArgsSrc(h2c, "secp256k1.ParsePubKey"))
	// the blind / sign / unblind formulas are library calls; their operands:
	args("spec_blind_add", callArgsSrc(findFunc(cryptoP, "", "BlindMessage"), "secp256k1.AddNonConst"))
	args("spec_sign_mult", callArgsSrc(findFunc(cryptoP, "", "SignBlindedMessage"), "secp256k1.ScalarMultNonConst"))
	args("spec_unblind_neg", callArgsSrc(findFunc(cryptoP, "", "UnblindSignature"), "rNeg.NegateVal"))
	args("spec_unblind_mult", callArgsSrc(findFunc(cryptoP, "", "UnblindSignature"), "secp256k1.ScalarMultNonConst"))
	args("spec_unblind_add", callArgsSrc(findFunc(cryptoP, "", "UnblindSignature"), "secp256k1.AddNonConst"))
	hashE := findFunc(cryptoP, "", "HashE")
	args("spec_hashE_hex", callArgsSrc(hashE, "hex.EncodeToString"))
	args("spec_hashE_sha256", callArgsSrc(hashE, "sha256.Sum256"))

	// crypto/keyset.go DeriveKeysetId
	kid := findFunc(cryptoP, "", "DeriveKeysetId")
	own, lits := returnsOf(kid)
	strs("spec_keysetId_return", own)
	strs("spec_keysetId_less", lits)
	args("spec_keysetId_append", callArgsSrc(kid, "append"))
	strs("spec_keysetId_hash", assignedExprs(kid, "hash"))
	args("spec_keysetId_write", callArgsSrc(kid, "hash.Write"))
	num("spec_keysetId_hexChars", kid, "14")

	// crypto/keyset.go DeriveKeysetPath and GenerateKeyset
	kp := findFunc(cryptoP, "", "DeriveKeysetPath")
	args("spec_mintPath_Derive", append(append(callArgsSrc(kp, "key.Derive"), callArgsSrc(kp, "child.Derive")...), callArgsSrc(kp, "unitPath.Derive")...))
	gk := findFunc(cryptoP, "", "GenerateKeyset")
	strs("spec_genKeyset_for", forHeaders(gk))
	strs("spec_genKeyset_amount", assignedExprs(gk, "amount"))
	args("spec_genKeyset_Derive", callArgsSrc(gk, "keysetPath.Derive"))
	args("spec_genKeyset_path", callArgsSrc(gk, "DeriveKeysetPath"))
	args("spec_genKeyset_id", callArgsSrc(gk, "DeriveKeysetId"))

	// cashu/nuts/nut13
	dkp := findFunc(nut13P, "", "DeriveKeysetPath")
	strs("spec_nut13_keysetBytes", assignedExprs(dkp, "keysetBytes"))
	strs("spec_nut13_bigEndian", assignedExprs(dkp, "bigEndianBytes"))
	strs("spec_nut13_keysetIdInt", assignedExprs(dkp, "keysetIdInt"))
	num("spec_nut13_modulus", dkp, "(1<<31 - 1)")
	num("spec_nut13_purpose", dkp, "129372")
	args("spec_nut13_pathDerive", append(append(callArgsSrc(dkp, "master.Derive"), callArgsSrc(dkp, "purpose.Derive")...), callArgsSrc(dkp, "coinType.Derive")...))
	ds := findFunc(nut13P, "", "DeriveSecret")
	db := findFunc(nut13P, "", "DeriveBlindingFactor")
	args("spec_nut13_secretDerive", append(callArgsSrc(ds, "keysetPath.Derive"), callArgsSrc(ds, "counterPath.Derive")...))
	args("spec_nut13_rDerive", append(callArgsSrc(db, "keysetPath.Derive"), callArgsSrc(db, "counterPath.Derive")...))
	strs("spec_nut13_secretBytes", assignedExprs(ds, "secretBytes"))
	strs("spec_nut13_secret", assignedExprs(ds, "secret"))
	rown, _ := returnsOf(db)
	strs("spec_nut13_rReturns", rown)

	// wallet/p2pk.go
	p2 := findFunc(walletP, "", "DeriveP2PK")
	args("spec_p2pk_Derive", append(append(append(callArgsSrc(p2, "key.Derive"), callArgsSrc(p2, "purpose.Derive")...),
		callArgsSrc(p2, "coinType.Derive")...), callArgsSrc(p2, "first.Derive")...))
}

// emitHardenedKeyStart reads the constant hdkeychain.HardenedKeyStart from the btcutil version that /repo's go.mod
// pins, in the module cache (the same files the harness is compiled against).  Data only.
func emitHardenedKeyStart(w func(string, ...any), repo string) {
	missing := func(why string) { w("def spec_hardenedKeyStart : String := %s\n", leanStr("<missing: "+why+">")) }
	gomod, err := os.ReadFile(filepath.Join(repo, "go.mod"))
	if err != nil {
		missing("go.mod")
		return
	}
	version := ""
	for _, line := range strings.Split(string(gomod), "\n") {
		f := strings.Fields(line)
		for i := 0; i+1 < len(f); i++ {
			if f[i] == "github.com/btcsuite/btcd/btcutil" {
				version = f[i+1]
			}
		}
	}
	if version == "" {
		missing("btcutil not required")
		return
	}
	var caches []string
	if c := os.Getenv("GOMODCACHE"); c != "" {
		caches = append(caches, c)
	}
	for _, gp := range filepath.SplitList(os.Getenv("GOPATH")) {
		caches = append(caches, filepath.Join(gp, "pkg", "mod"))
	}
	if h, err := os.UserHomeDir(); err == nil {
		caches = append(caches, filepath.Join(h, "go", "pkg", "mod"))
	}
	for _, c := range caches {
		dir := filepath.Join(c, "github.com", "btcsuite", "btcd", "btcutil@"+version, "hdkeychain")
		if _, err := os.Stat(dir); err != nil {
			continue
		}
		env := collectConsts(parseDir(dir))
		if v, ok := env["HardenedKeyStart"].(int64); ok {
			w("def spec_hardenedKeyStart : Nat := %d\n", v)
			w("def spec_btcutilVersion : String := %s\n", leanStr(version))
			return
		}
	}
	missing("hdkeychain source not in the module cache")
}

// ---- token front end (C14): slice expressions, string literals, if-conditions, index expressions and the
// base64/hex/json/cbor calls of the token functions, in source order (data only; Gonuts/Tie/Token.lean
// proves them equal to what Model.Token uses) ----

type tokenFnFacts struct {
	slices  [][3]string // (operand, low, high) of every slice expression
	strings []string    // string literals
	conds   []string    // rendered if-conditions
	indexes []string    // rendered index expressions (x[i])
	calls   []string    // callees starting with one of the library prefixes, or one of the local decoder names
}

func tokenFacts(fd *ast.FuncDecl) tokenFnFacts {
	var f tokenFnFacts
	if fd == nil || fd.Body == nil {
		f.strings = []string{"<missing>"}
		return f
	}
	libs := []string{"base64.", "hex.", "json.", "cbor.", "DecodeTokenV3", "DecodeTokenV4"}
	ast.Inspect(fd.Body, func(n ast.Node) bool {
		switch x := n.(type) {
		case *ast.SliceExpr:
			f.slices = append(f.slices, [3]string{exprString(x.X), exprString(x.Low), exprString(x.High)})
		case *ast.BasicLit:
			if x.Kind == token.STRING {
				if v, err := strconv.Unquote(x.Value); err == nil {
					f.strings = append(f.strings, v)
				}
			}
		case *ast.IfStmt:
			f.conds = append(f.conds, exprString(x.Cond))
		case *ast.IndexExpr:
			f.indexes = append(f.indexes, exprString(x))
		case *ast.CallExpr:
			callee := exprString(x.Fun)
			for _, l := range libs {
				if strings.HasPrefix(callee, l) {
					f.calls = append(f.calls, callee)
					break
				}
			}
		}
		return true
	})
	return f
}

func emitTokenFacts(w func(string, ...any), cashuP *pkg) {
	w("\n/-! ## token functions (C14): slices, literals, conditions, index expressions, library calls -/\n")
	for _, fn := range [][2]string{
		{"", "DecodeToken"}, {"", "DecodeTokenV3"}, {"", "DecodeTokenV4"},
		{"TokenV3", "Serialize"}, {"TokenV4", "Serialize"}, {"TokenV3", "Mint"}, {"TokenV4", "Mint"},
		{"TokenV3", "Proofs"}, {"TokenV4", "Proofs"}, {"TokenV3", "Amount"}, {"TokenV4", "Amount"},
		{"", "NewTokenV3"}, {"", "NewTokenV4"},
	} {
		name := fn[1]
		if fn[0] != "" {
			name = fn[0] + "_" + fn[1]
		}
		f := tokenFacts(findFunc(cashuP, fn[0], fn[1]))
		w("def tok_%s_slices : List (String × String × String) := [", name)
		for i, r := range f.slices {
			if i > 0 {
				w(", ")
			}
			w("(%s, %s, %s)", leanStr(r[0]), leanStr(r[1]), leanStr(r[2]))
		}
		w("]\n")
		w("def tok_%s_strings : List String := %s\n", name, leanStrList(f.strings))
		w("def tok_%s_conds : List String := %s\n", name, leanStrList(f.conds))
		w("def tok_%s_indexes : List String := %s\n", name, leanStrList(f.indexes))
		w("def tok_%s_calls : List String := %s\n", name, leanStrList(f.calls))
	}
}

// emitTokenCallers: how cmd/nutw hands its command-line argument to cashu.DecodeToken (C14 anchor nutw.go:194):
// for `receive` and `decode`, the argument expressions of cashu.DecodeToken, the right-hand sides assigned to those
// argument variables, and the calls made on the decoded token value.
func emitTokenCallers(w func(string, ...any), nutwP *pkg) {
	for _, fn := range []string{"receive", "decode"} {
		fd := findFunc(nutwP, "", fn)
		args := callArgs(fd, "cashu.DecodeToken")
		vars := map[string]bool{}
		for _, a := range args {
			for _, x := range a {
				vars[x] = true
			}
		}
		var assigns, tokenCalls []string
		if fd != nil && fd.Body != nil {
			ast.Inspect(fd.Body, func(n ast.Node) bool {
				switch x := n.(type) {
				case *ast.AssignStmt:
					for i, l := range x.Lhs {
						if vars[exprString(l)] && i < len(x.Rhs) {
							assigns = append(assigns, exprString(l)+x.Tok.String()+exprString(x.Rhs[i]))
						}
					}
				case *ast.CallExpr:
					callee := exprString(x.Fun)
					if strings.HasPrefix(callee, "token.") {
						tokenCalls = append(tokenCalls, callee)
					}
					for _, a := range x.Args {
						if exprString(a) == "token" {
							tokenCalls = append(tokenCalls, callee+"(token)")
						}
					}
				}
				return true
			})
		}
		w("def tok_nutw_%s_decodeArgs : List (List String) := [", fn)
		for i, r := range args {
			if i > 0 {
				w(", ")
			}
			w("%s", leanStrList(r))
		}
		w("]\n")
		w("def tok_nutw_%s_assigns : List String := %s\n", fn, leanStrList(assigns))
		w("def tok_nutw_%s_tokenUses : List String := %s\n", fn, leanStrList(tokenCalls))
	}
}

// ============================================================================================
// C08 (agent "privacy"): what the wallet puts into its requests.
// Data only: for every composite literal of a request type (and of cashu.Proof / BlindedMessage /
// DLEQProof / swapRequestPayload) in package wallet, the enclosing top-level function and the
// rendered `Field:expr` entries in source order; the json tags of the request structs; the text of
// NewTokenV3 (the place where DLEQs are stripped for the caller).
// Gonuts/Tie/WalletWire.lean proves each equal to what Model/WalletWire.lean was written against.
// ============================================================================================

func emitWalletWireFacts(w func(string, ...any), repo string, walletP, cashuP *pkg) {
	w("\n/-! ## composite literals building the wallet's requests (C08) -/\n")
	type lit struct {
		fn     string
		fields []string
	}
	var names []string
	for n := range walletP.files {
		names = append(names, n)
	}
	sort.Strings(names)
	collect := func(typ string) []lit {
		var out []lit
		for _, n := range names {
			for _, d := range walletP.files[n].Decls {
				fd, ok := d.(*ast.FuncDecl)
				if !ok || fd.Body == nil {
					continue
				}
				ast.Inspect(fd.Body, func(x ast.Node) bool {
					cl, ok := x.(*ast.CompositeLit)
					if !ok || exprString(cl.Type) != typ {
						return true
					}
					l := lit{fn: fd.Name.Name}
					for _, e := range cl.Elts {
						l.fields = append(l.fields, exprString(e))
					}
					out = append(out, l)
					return true
				})
			}
		}
		return out
	}
	emit := func(lean, typ string) {
		w("def %s : List (String × List String) := [", lean)
		for i, l := range collect(typ) {
			if i > 0 {
				w(", ")
			}
			w("(%s, %s)", leanStr(l.fn), leanStrList(l.fields))
		}
		w("]\n")
	}
	emit("wlit_PostSwapRequest", "nut03.PostSwapRequest")
	emit("wlit_PostMeltBolt11Request", "nut05.PostMeltBolt11Request")
	emit("wlit_PostMintBolt11Request", "nut04.PostMintBolt11Request")
	emit("wlit_PostCheckStateRequest", "nut07.PostCheckStateRequest")
	emit("wlit_PostRestoreRequest", "nut09.PostRestoreRequest")
	emit("wlit_PostMintQuoteBolt11Request", "nut04.PostMintQuoteBolt11Request")
	emit("wlit_PostMeltQuoteBolt11Request", "nut05.PostMeltQuoteBolt11Request")
	emit("wlit_swapRequestPayload", "swapRequestPayload")
	emit("wlit_Proof", "cashu.Proof")
	emit("wlit_BlindedMessage", "cashu.BlindedMessage")
	emit("wlit_DLEQProof", "cashu.DLEQProof")

	emitFields := func(lean string, p *pkg, typ string) {
		w("def %s : List (String × String × String) := [", lean)
		for i, r := range structFields(p, typ) {
			if i > 0 {
				w(", ")
			}
			w("(%s, %s, %s)", leanStr(r[0]), leanStr(r[1]), leanStr(r[2]))
		}
		w("]\n")
	}
	emitFields("fields_PostSwapRequest", parseDir(filepath.Join(repo, "cashu/nuts/nut03")), "PostSwapRequest")
	emitFields("fields_PostMintBolt11Request", parseDir(filepath.Join(repo, "cashu/nuts/nut04")), "PostMintBolt11Request")
	emitFields("fields_PostMintQuoteBolt11Request", parseDir(filepath.Join(repo, "cashu/nuts/nut04")), "PostMintQuoteBolt11Request")
	emitFields("fields_PostMeltBolt11Request", parseDir(filepath.Join(repo, "cashu/nuts/nut05")), "PostMeltBolt11Request")
	emitFields("fields_PostMeltQuoteBolt11Request", parseDir(filepath.Join(repo, "cashu/nuts/nut05")), "PostMeltQuoteBolt11Request")
	emitFields("fields_PostCheckStateRequest", parseDir(filepath.Join(repo, "cashu/nuts/nut07")), "PostCheckStateRequest")
	emitFields("fields_PostRestoreRequest", parseDir(filepath.Join(repo, "cashu/nuts/nut09")), "PostRestoreRequest")

	emitSrc := func(lean string, lines []string) {
		w("def %s : List String := [\n", lean)
		for i, l := range lines {
			sep := ","
			if i == len(lines)-1 {
				sep = ""
			}
			w("  %s%s\n", leanStr(l), sep)
		}
		w("]\n")
	}
	// which proofs reach swap() / swapProofs: the arguments of their callers
	emitCalls := func(lean, callee string, fns []string) {
		w("def %s : List (String × List String) := [", lean)
		first := true
		for _, fn := range fns {
			fd := findFunc(walletP, "Wallet", fn)
			for _, args := range callArgs(fd, callee) {
				if !first {
					w(", ")
				}
				first = false
				w("(%s, %s)", leanStr(fn), leanStrList(args))
			}
		}
		w("]\n")
	}
	emitCalls("wcall_createSwapRequest", "w.createSwapRequest", []string{"Receive", "ReceiveHTLC", "swapToTrusted", "ReclaimUnspentProofs"})
	emitCalls("wcall_swapProofs", "w.swapProofs", []string{"MintSwap", "swapToTrusted"})
	emitCalls("wcall_swap", "swap", []string{"Receive", "ReceiveHTLC", "swapToTrusted", "ReclaimUnspentProofs"})
	emitCalls("wcall_getProofsForAmount", "w.getProofsForAmount", []string{"Send", "Melt", "MintSwap"})
	emitSrc("src_NewTokenV3", srcLines(findFunc(cashuP, "", "NewTokenV3")))
	emitSrc("src_NewBlindedMessage", srcLines(findFunc(cashuP, "", "NewBlindedMessage")))
	// helper of the F5 fix (absent before it): DLEQ-less copies of request inputs
	emitSrc("src_inputsWithoutDLEQ", srcLines(findFunc(walletP, "", "inputsWithoutDLEQ")))
}

// ============================================================================================
// C20 (agent "wire"): facts about mint/server.go that Model/Wire.lean mirrors.  Data only:
//   * for every HTTP handler: the internal error codes it tests in `cashuErr.Code == cashu.X`
//     (those are the ones it replaces by a constant), the first argument of every writeErr call in
//     source order, whether it checks the {method} variable, the request type it decodes;
//   * decodeJsonReqBody: the case conditions of its error switch and its string literals;
//   * go/printer text of Cache.Set / Get / DeleteExpired, writeErr, setupHeaders, the loop of Start,
//     PublicKeys.MarshalJSON;
//   * the NUT-19 advertisement in SetMintInfo;
//   * which cashu.Error variables are used at all (selector uses outside their declaration);
//   * JSON tags of the remaining request / response structs.
// Gonuts/Tie/Wire.lean proves each equal to what the model uses.
// ============================================================================================

func emitWireFacts(w func(string, ...any), repo string, mintP, cashuP, cryptoP, nut04P, nut05P, nut07P *pkg) {
	w("\n/-! ## HTTP surface (C20): handlers, decoding, cache, advertisement -/\n")
	oneLine := func(n ast.Node) string { return strings.Join(strings.Fields(nodeText(n)), " ") }
	emitLines := func(lean string, lines []string) {
		w("def %s : List String := [\n", lean)
		for i, l := range lines {
			sep := ","
			if i == len(lines)-1 {
				sep = ""
			}
			w("  %s%s\n", leanStr(l), sep)
		}
		w("]\n")
	}
	// handlers = methods of MintServer with the (rw, req) signature
	var handlers []*ast.FuncDecl
	for _, f := range mintP.files {
		for _, d := range f.Decls {
			fd, ok := d.(*ast.FuncDecl)
			if !ok || fd.Recv == nil || fd.Body == nil || len(fd.Recv.List) == 0 {
				continue
			}
			if strings.TrimPrefix(exprString(fd.Recv.List[0].Type), "*") != "MintServer" {
				continue
			}
			if fd.Type.Params == nil || len(fd.Type.Params.List) != 2 || exprString(fd.Type.Params.List[0].Type) != "http.ResponseWriter" {
				continue
			}
			handlers = append(handlers, fd)
		}
	}
	sort.Slice(handlers, func(i, j int) bool { return handlers[i].Name.Name < handlers[j].Name.Name })
	type row struct {
		name string
		vals []string
	}
	emitRows := func(lean string, rows []row) {
		w("def %s : List (String × List String) := [\n", lean)
		for i, r := range rows {
			sep := ","
			if i == len(rows)-1 {
				sep = ""
			}
			w("  (%s, %s)%s\n", leanStr(r.name), leanStrList(r.vals), sep)
		}
		w("]\n")
	}
	var codes, werrs, decodes, opcalls []row
	var methodChecks []string
	for _, fd := range handlers {
		seen := map[string]bool{}
		var cs, ws, ds, ops []string
		varTypes := map[string]string{}
		hasMethod := false
		ast.Inspect(fd.Body, func(n ast.Node) bool {
			switch x := n.(type) {
			case *ast.BinaryExpr:
				if x.Op == token.EQL && exprString(x.X) == "cashuErr.Code" {
					c := strings.TrimPrefix(exprString(x.Y), "cashu.")
					if !seen[c] {
						seen[c] = true
						cs = append(cs, c)
					}
				}
				if x.Op == token.NEQ && exprString(x.X) == "method" && exprString(x.Y) == "cashu.BOLT11_METHOD" {
					hasMethod = true
				}
			case *ast.DeclStmt:
				if gd, ok := x.Decl.(*ast.GenDecl); ok && gd.Tok == token.VAR {
					for _, sp := range gd.Specs {
						if vs, ok := sp.(*ast.ValueSpec); ok && vs.Type != nil {
							for _, nm := range vs.Names {
								varTypes[nm.Name] = exprString(vs.Type)
							}
						}
					}
				}
			case *ast.CallExpr:
				callee := exprString(x.Fun)
				switch {
				case callee == "ms.writeErr" && len(x.Args) >= 3:
					ws = append(ws, exprString(x.Args[2]))
				case callee == "decodeJsonReqBody" && len(x.Args) == 2:
					v := strings.TrimPrefix(exprString(x.Args[1]), "&")
					ds = append(ds, varTypes[v])
				case strings.HasPrefix(callee, "ms.mint.") && callee != "ms.mint.logDebugf" && !strings.HasPrefix(callee, "ms.mint.logger"):
					ops = append(ops, strings.TrimPrefix(callee, "ms.mint."))
				}
			}
			return true
		})
		sort.Strings(cs)
		codes = append(codes, row{fd.Name.Name, cs})
		werrs = append(werrs, row{fd.Name.Name, ws})
		decodes = append(decodes, row{fd.Name.Name, ds})
		opcalls = append(opcalls, row{fd.Name.Name, ops})
		if hasMethod {
			methodChecks = append(methodChecks, fd.Name.Name)
		}
	}
	emitRows("handlerGenericCodes", codes)
	emitRows("handlerWriteErrArgs", werrs)
	emitRows("handlerDecodes", decodes)
	emitRows("handlerMintCalls", opcalls)
	w("def handlerMethodChecks : List String := %s\n", leanStrList(methodChecks))

	// decodeJsonReqBody
	dfd := findFunc(mintP, "", "decodeJsonReqBody")
	var conds, lits []string
	if dfd != nil {
		ast.Inspect(dfd.Body, func(n ast.Node) bool {
			switch x := n.(type) {
			case *ast.CaseClause:
				if len(x.List) == 0 {
					conds = append(conds, "default")
				}
				for _, e := range x.List {
					conds = append(conds, oneLine(e))
				}
			case *ast.BasicLit:
				if x.Kind == token.STRING {
					if sv, err := strconv.Unquote(x.Value); err == nil {
						lits = append(lits, sv)
					}
				}
			}
			return true
		})
	}
	w("def decodeSwitchCases : List String := %s\n", leanStrList(conds))
	w("def decodeStringLiterals : List String := %s\n", leanStrList(lits))
	emitLines("src_decodeJsonReqBody", srcLines(dfd))

	// source text of the small functions the cache / transport model mirrors
	emitLines("src_CacheSet", srcLines(findFunc(mintP, "Cache", "Set")))
	emitLines("src_CacheGet", srcLines(findFunc(mintP, "Cache", "Get")))
	emitLines("src_CacheDeleteExpired", srcLines(findFunc(mintP, "Cache", "DeleteExpired")))
	emitLines("src_NewCache", srcLines(findFunc(mintP, "", "NewCache")))
	emitLines("src_requestCacheKey", srcLines(findFunc(mintP, "", "requestCacheKey")))
	emitLines("src_writeErr", srcLines(findFunc(mintP, "MintServer", "writeErr")))
	emitLines("src_setupHeaders", srcLines(findFunc(mintP, "", "setupHeaders")))
	emitLines("src_Start", srcLines(findFunc(mintP, "MintServer", "Start")))
	emitLines("src_SetupMintServer", srcLines(findFunc(mintP, "", "SetupMintServer")))
	emitLines("src_PublicKeysMarshalJSON", srcLines(findFunc(cryptoP, "PublicKeys", "MarshalJSON")))
	emitLines("src_CheckDuplicateProofs", srcLines(findFunc(cashuP, "", "CheckDuplicateProofs")))

	// the statements of the two cached handlers that touch the cache, in source order
	cacheStmts := func(fd *ast.FuncDecl) []string {
		var out []string
		if fd == nil {
			return []string{"<missing>"}
		}
		ast.Inspect(fd.Body, func(n ast.Node) bool {
			switch x := n.(type) {
			case *ast.IfStmt:
				c := oneLine(x.Cond)
				if c == "found" || strings.Contains(c, "REQUEST_BODY_SIZE_LIMIT") {
					out = append(out, "if "+c)
				}
			case *ast.CallExpr:
				callee := exprString(x.Fun)
				if strings.HasPrefix(callee, "ms.cache.") || callee == "ms.mint.Swap" || callee == "ms.mint.MintTokens" || callee == "decodeJsonReqBody" {
					out = append(out, "call "+callee)
				}
			}
			return true
		})
		return out
	}
	emitLines("stmts_cache_swapRequest", cacheStmts(findFunc(mintP, "MintServer", "swapRequest")))
	emitLines("stmts_cache_mintTokensRequest", cacheStmts(findFunc(mintP, "MintServer", "mintTokensRequest")))
	emitLines("stmts_cache_getKeysetById", cacheStmts(findFunc(mintP, "MintServer", "getKeysetById")))
	emitLines("stmts_cache_getActiveKeysets", cacheStmts(findFunc(mintP, "MintServer", "getActiveKeysets")))
	// key / TTL arguments of the keyset uses of the cache
	argRows := func(fd *ast.FuncDecl, callee string) [][]string { return callArgs(fd, callee) }
	emitArgs := func(lean string, rows [][]string) {
		w("def %s : List (List String) := [", lean)
		for i, r := range rows {
			if i > 0 {
				w(", ")
			}
			w("%s", leanStrList(r))
		}
		w("]\n")
	}
	emitArgs("args_cacheGet_keysById", argRows(findFunc(mintP, "MintServer", "getKeysetById"), "ms.cache.Get"))
	emitArgs("args_cacheSet_keysById", argRows(findFunc(mintP, "MintServer", "getKeysetById"), "ms.cache.Set"))
	emitArgs("args_cacheGet_activeKeys", argRows(findFunc(mintP, "MintServer", "getActiveKeysets"), "ms.cache.Get"))
	emitArgs("args_cacheSet_activeKeys", argRows(findFunc(mintP, "MintServer", "getActiveKeysets"), "ms.cache.Set"))

	// NUT-19 advertisement: the Nut19 field of the nuts literal in SetMintInfo
	adv := "<missing>"
	if fd := findFunc(mintP, "Mint", "SetMintInfo"); fd != nil {
		ast.Inspect(fd.Body, func(n ast.Node) bool {
			if kv, ok := n.(*ast.KeyValueExpr); ok && exprString(kv.Key) == "Nut19" {
				adv = oneLine(kv.Value)
				return false
			}
			return true
		})
	}
	w("def nut19Advertisement : String := %s\n", leanStr(adv))

	// uses of the error variables of cashu/cashu.go: selector uses `cashu.X` in the mint package + bare uses inside cashu
	var names []string
	for _, r := range collectErrors(cashuP, collectConsts(cashuP), nil) {
		names = append(names, r.name)
	}
	uses := map[string]int{}
	for _, f := range mintP.files {
		ast.Inspect(f, func(n ast.Node) bool {
			if se, ok := n.(*ast.SelectorExpr); ok && exprString(se.X) == "cashu" {
				uses[se.Sel.Name]++
			}
			return true
		})
	}
	for _, f := range cashuP.files {
		for _, d := range f.Decls {
			fd, ok := d.(*ast.FuncDecl)
			if !ok || fd.Body == nil {
				continue
			}
			ast.Inspect(fd.Body, func(n ast.Node) bool {
				if id, ok := n.(*ast.Ident); ok {
					uses[id.Name]++
				}
				return true
			})
		}
	}
	w("def errVarUsed : List (String × Bool) := [")
	for i, n := range names {
		if i > 0 {
			w(", ")
		}
		w("(%s, %v)", leanStr(n), uses[n] > 0)
	}
	w("]\n")

	// JSON tags of the remaining request / response structs
	emitFields := func(lean string, rows [][3]string) {
		w("def %s : List (String × String × String) := [", lean)
		for i, r := range rows {
			if i > 0 {
				w(", ")
			}
			w("(%s, %s, %s)", leanStr(r[0]), leanStr(r[1]), leanStr(r[2]))
		}
		w("]\n")
	}
	nut01P := parseDir(filepath.Join(repo, "cashu/nuts/nut01"))
	nut02P := parseDir(filepath.Join(repo, "cashu/nuts/nut02"))
	nut03P := parseDir(filepath.Join(repo, "cashu/nuts/nut03"))
	nut06P := parseDir(filepath.Join(repo, "cashu/nuts/nut06"))
	nut09P := parseDir(filepath.Join(repo, "cashu/nuts/nut09"))
	emitFields("fields_MintQuoteRequest", structFields(nut04P, "PostMintQuoteBolt11Request"))
	emitFields("fields_MintRequest", structFields(nut04P, "PostMintBolt11Request"))
	emitFields("fields_MintResponse", structFields(nut04P, "PostMintBolt11Response"))
	emitFields("fields_MintQuoteTemp", structFields(nut04P, "tempQuote"))
	emitFields("fields_SwapRequest", structFields(nut03P, "PostSwapRequest"))
	emitFields("fields_SwapResponse", structFields(nut03P, "PostSwapResponse"))
	emitFields("fields_MeltQuoteRequest", structFields(nut05P, "PostMeltQuoteBolt11Request"))
	emitFields("fields_MppOption", structFields(nut05P, "MppOption"))
	emitFields("fields_MeltRequest", structFields(nut05P, "PostMeltBolt11Request"))
	emitFields("fields_MeltQuoteTemp", structFields(nut05P, "tempQuote"))
	emitFields("fields_CheckStateRequest", structFields(nut07P, "PostCheckStateRequest"))
	emitFields("fields_CheckStateResponse", structFields(nut07P, "PostCheckStateResponse"))
	emitFields("fields_ProofStateTemp", structFields(nut07P, "tempProofState"))
	emitFields("fields_RestoreRequest", structFields(nut09P, "PostRestoreRequest"))
	emitFields("fields_RestoreResponse", structFields(nut09P, "PostRestoreResponse"))
	emitFields("fields_GetKeysResponse", structFields(nut01P, "GetKeysResponse"))
	emitFields("fields_KeysKeyset", structFields(nut01P, "Keyset"))
	emitFields("fields_GetKeysetsResponse", structFields(nut02P, "GetKeysetsResponse"))
	emitFields("fields_KeysetsKeyset", structFields(nut02P, "Keyset"))
	emitFields("fields_MintInfo", structFields(nut06P, "MintInfo"))
	emitFields("fields_Nuts", structFields(nut06P, "Nuts"))
	emitFields("fields_NutSetting", structFields(nut06P, "NutSetting"))
	emitFields("fields_MethodSetting", structFields(nut06P, "MethodSetting"))
	emitFields("fields_Supported", structFields(nut06P, "Supported"))
	emitFields("fields_Nut19Setting", structFields(nut06P, "Nut19Setting"))
	emitFields("fields_CachedEndpoint", structFields(nut06P, "CachedEndpoint"))
}

// the body of RequestMeltQuote (which invoice may be settled internally, F17; what the quote is for)
func emitMeltQuoteFacts(w func(string, ...any), mintP *pkg) {
	w("\n/-! ## Mint.RequestMeltQuote / settleQuotesInternally: bodies (go/printer, comments stripped) -/\n")
	w("def src_RequestMeltQuote : List String := %s\n", leanStrList(bodyLines(findFunc(mintP, "Mint", "RequestMeltQuote"))))
	w("def src_settleQuotesInternally : List String := %s\n", leanStrList(bodyLines(findFunc(mintP, "Mint", "settleQuotesInternally"))))
}

func emitLnClientFacts(w func(string, ...any), lnP *pkg) {
	w("\n/-! ## Lightning clients (mint/lightning/lnd.go, cln.go): bodies of the lightning.Client methods (go/printer, comments stripped) -/\n")
	for _, c := range []struct{ recv, tag string }{{"LndClient", "lnd"}, {"CLNClient", "cln"}} {
		for _, fn := range []string{"CreateInvoice", "InvoiceStatus", "SendPayment", "PayPartialAmount", "OutgoingPaymentStatus", "FeeReserve"} {
			w("def src_%s_%s : List String := %s\n", c.tag, fn, leanStrList(bodyLines(findFunc(lnP, c.recv, fn))))
		}
	}
}
