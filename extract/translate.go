// translate: a small Go -> Lean 4 translator for the PURE arithmetic / decision helpers of gonuts
// (no storage, network, crypto or float code).  Output: Gonuts/Gen/Code.lean, regenerated from /repo on every
// check run.  Each Go function becomes a Lean `def` built from `let`, `if`, tuples and the loop / map combinators of
// Gonuts/Model/GoSem.lean; Gonuts/Tie/Code.lean proves, for ALL inputs, that the regenerated definitions equal the
// hand-written model (or satisfy their specification directly).
//
// Scheme (kept deliberately tiny):
//   * statements are translated in continuation style: `if c {A}; rest` becomes `if c then [A; rest] else [rest]`
//     (the continuation is duplicated into both branches), an assignment is a shadowing `let`;
//   * a loop becomes a fold over its loop-carried variables (the outer variables its body assigns) with a control
//     flag for `return` / `break` (Go.rangeLoop, Go.countLoop, Go.whileLoop); a function with a general `for cond`
//     loop takes a `fuel : Nat` argument and returns an `Option`;
//   * variables declared in an inner scope get fresh names, so a shadowing declaration never captures;
//   * anything outside the subset (pointers compared by identity, closures, floats, method values, goroutines, ...)
//     makes the translation of that function FAIL with a message; the failure is emitted as a Lean `def` of type
//     String named `untranslatable_<F>` so that the tie theorem about `<F>` no longer elaborates (a broken obligation).
package main

import (
	"fmt"
	"go/ast"
	"go/token"
	"sort"
	"strings"
)

type gty struct {
	k     string // u64 u32 int bool string slice map struct error tuple untyped unknown
	elem  *gty
	key   *gty
	name  string
	items []*gty
}

var (
	tU64     = &gty{k: "u64"}
	tU32     = &gty{k: "u32"}
	tU8      = &gty{k: "u8"}
	tInt     = &gty{k: "int"}
	tBool    = &gty{k: "bool"}
	tString  = &gty{k: "string"}
	tError   = &gty{k: "error"}
	tUntyped = &gty{k: "untyped"}
	tUnknown = &gty{k: "unknown"}
)

func (t *gty) lean() string {
	switch t.k {
	case "u64":
		return "UInt64"
	case "u32":
		return "UInt32"
	case "u8":
		return "UInt8"
	case "int", "untyped":
		return "Int"
	case "bool":
		return "Bool"
	case "string":
		return "String"
	case "error":
		return "(Option String)"
	case "slice":
		return "(List " + t.elem.lean() + ")"
	case "opt":
		return "(Option " + t.elem.lean() + ")"
	case "map":
		return "(List (" + t.key.lean() + " × " + t.elem.lean() + "))"
	case "struct", "opaque":
		return t.name
	case "tuple":
		var xs []string
		for _, i := range t.items {
			xs = append(xs, i.lean())
		}
		if len(xs) == 0 {
			return "Unit"
		}
		return "(" + strings.Join(xs, " × ") + ")"
	}
	return "UNKNOWN"
}

func (t *gty) ok() bool {
	switch t.k {
	case "unknown":
		return false
	case "slice", "opt":
		return t.elem.ok()
	case "map":
		return t.elem.ok() && t.key.ok()
	case "tuple":
		for _, i := range t.items {
			if !i.ok() {
				return false
			}
		}
	}
	return true
}

// eqSafe: Go's == on this type is the structural equality the Lean model has (no pointer identity inside)
func (tr *translator) eqSafe(t *gty) bool {
	switch t.k {
	case "u64", "u32", "u8", "int", "bool", "string", "untyped":
		return true
	case "struct":
		si := tr.structOf(t)
		if si == nil || si.hasPtr || len(si.skipped) > 0 {
			return false
		}
		for _, f := range si.fields {
			if !tr.eqSafe(si.ftypes[f]) {
				return false
			}
		}
		return true
	}
	return false
}

func (t *gty) isNum() bool { return t.k == "u64" || t.k == "u32" || t.k == "u8" || t.k == "int" }

// pointers to these foreign types are opaque tokens (`abbrev <name> := Nat`): the translated code never looks inside
var foreignOpaque = map[string]string{"btcec.PublicKey": "PublicKey", "schnorr.Signature": "Signature"}

// calls that leave the translated set but whose RESULT the code branches on: they become explicit function
// parameters of the generated definition (the tie theorem then quantifies over / instantiates their behaviour)
type extFn struct {
	param  string // name of the parameter
	lean   string // its Lean type
	result *gty
}

var externals = map[string]*extFn{
	"strconv.ParseInt":      {"ext_ParseInt", "String → Int → Int → Int × Option String", &gty{k: "tuple", items: []*gty{tInt, tError}}},
	"nut11.ParsePublicKey":  {"ext_ParsePublicKey", "String → PublicKey × Option String", &gty{k: "tuple", items: []*gty{{k: "opaque", name: "PublicKey"}, tError}}},
	"nut10.DeserializeSecret": {"ext_DeserializeSecret", "String → WellKnownSecret × Option String", nil},
	"nut11.ParseSignature":  {"ext_ParseSignature", "String → Signature × Option String", &gty{k: "tuple", items: []*gty{{k: "opaque", name: "Signature"}, tError}}},
	// method of an opaque foreign value: the receiver is the first argument
	"Signature.Verify": {"ext_Verify", "Signature → List UInt8 → PublicKey → Bool", tBool},
	"time.now":         {"ext_now", "Int", tInt},
	"hex.DecodeString":   {"ext_hexDecode", "String → List UInt8 × Option String", &gty{k: "tuple", items: []*gty{{k: "slice", elem: tU8}, tError}}},
	"hex.EncodeToString": {"ext_hexEncode", "List UInt8 → String", tString},
	"sha256.bytes":       {"ext_sha256b", "List UInt8 → List UInt8", &gty{k: "slice", elem: tU8}},
	"sha256.string":    {"ext_sha256", "String → List UInt8", &gty{k: "slice", elem: tU8}},
}

type trErr struct{ msg string }

func trFail(format string, a ...any) { panic(trErr{fmt.Sprintf(format, a...)}) }

type structInfo struct {
	lean    string
	fields  []string
	ftypes  map[string]*gty
	skipped []string
	hasPtr  bool
	emitted bool
}

type funcInfo struct {
	pkg    string
	recv   string
	name   string
	lean   string
	fd     *ast.FuncDecl
	params []*gty
	result *gty
	fuel   bool
	done   bool
	text   string
	exts   []string
}

type translator struct {
	pkgs      map[string]*pkg
	consts    map[string]constEnv
	structs   map[string]*structInfo // key pkg.Name
	structOrd []string
	funcs     map[string]*funcInfo // key pkg.Recv.Name
	used      map[string]bool      // lean names in use inside the current function
	opaqueUsed map[string]bool
	extUsed   []string             // externals used by the current function (in order of first use)
}

func (tr *translator) findType(pk, name string) ast.Expr {
	p := tr.pkgs[pk]
	if p == nil {
		return nil
	}
	for _, f := range p.files {
		for _, d := range f.Decls {
			gd, ok := d.(*ast.GenDecl)
			if !ok || gd.Tok != token.TYPE {
				continue
			}
			for _, s := range gd.Specs {
				ts := s.(*ast.TypeSpec)
				if ts.Name.Name == name {
					return ts.Type
				}
			}
		}
	}
	return nil
}

// resolve a type expression written in package pk
func (tr *translator) resolve(pk string, e ast.Expr) *gty {
	switch x := e.(type) {
	case *ast.Ident:
		switch x.Name {
		case "uint64", "uint":
			return tU64
		case "uint32":
			return tU32
		case "byte", "uint8":
			return tU8
		case "int", "int64":
			return tInt
		case "bool":
			return tBool
		case "string":
			return tString
		case "error":
			return tError
		}
		return tr.named(pk, x.Name)
	case *ast.SelectorExpr:
		if id, ok := x.X.(*ast.Ident); ok {
			return tr.named(id.Name, x.Sel.Name)
		}
	case *ast.StarExpr:
		if name, ok := foreignOpaque[exprString(x.X)]; ok {
			// a pointer to a foreign type that the translated code only passes around: an opaque token
			tr.opaqueUsed[name] = true
			return &gty{k: "opaque", name: name}
		}
		t := tr.resolve(pk, x.X)
		if t.k == "struct" {
			return t
		}
		return tUnknown
	case *ast.ArrayType:
		if x.Len == nil {
			el := tr.resolve(pk, x.Elt)
			return &gty{k: "slice", elem: el}
		}
	case *ast.MapType:
		return &gty{k: "map", key: tr.resolve(pk, x.Key), elem: tr.resolve(pk, x.Value)}
	}
	return tUnknown
}

func (tr *translator) named(pk, name string) *gty {
	te := tr.findType(pk, name)
	if te == nil {
		return tUnknown
	}
	if st, ok := te.(*ast.StructType); ok {
		key := pk + "." + name
		if si, ok := tr.structs[key]; ok {
			return &gty{k: "struct", name: si.lean}
		}
		lean := name
		for _, o := range tr.structs {
			if o.lean == lean {
				lean = pk + "_" + name
			}
		}
		si := &structInfo{lean: lean, ftypes: map[string]*gty{}}
		tr.structs[key] = si // registered first: recursive references resolve to the name
		for _, f := range st.Fields.List {
			var ft *gty
			if se, ptr := f.Type.(*ast.StarExpr); ptr {
				// a pointer FIELD to a modelled struct is an Option (nil = none); the struct then loses `==` (Go compares
				// pointers by identity): eqSafe refuses every == / map key on it
				inner := tr.resolve(pk, se.X)
				if inner.k == "struct" && inner.ok() {
					ft = &gty{k: "opt", elem: inner}
					si.hasPtr = true
				} else {
					ft = tUnknown
				}
			} else {
				ft = tr.resolve(pk, f.Type)
			}
			for _, n := range f.Names {
				if ft.ok() {
					si.fields = append(si.fields, n.Name)
					si.ftypes[n.Name] = ft
				} else {
					si.skipped = append(si.skipped, n.Name)
				}
			}
		}
		tr.structOrd = append(tr.structOrd, key)
		return &gty{k: "struct", name: lean}
	}
	return tr.resolve(pk, te)
}

func (tr *translator) structOf(t *gty) *structInfo {
	for _, si := range tr.structs {
		if si.lean == t.name {
			return si
		}
	}
	return nil
}

// ---------------------------------------------------------------- scopes

type scope struct {
	parent *scope
	vars   map[string]*varInfo
}
type varInfo struct {
	lean string
	t    *gty
}

func (s *scope) lookup(n string) *varInfo {
	for c := s; c != nil; c = c.parent {
		if v, ok := c.vars[n]; ok {
			return v
		}
	}
	return nil
}

var leanReserved = map[string]bool{"from": true, "to": true, "end": true, "at": true, "fun": true, "let": true, "in": true, "do": true,
	"then": true, "else": true, "if": true, "match": true, "with": true, "open": true, "def": true, "theorem": true, "show": true,
	"have": true, "by": true, "where": true, "namespace": true, "section": true, "instance": true, "structure": true, "class": true,
	"st": true, "fuel": true, "default": true, "some": true, "none": true, "true": true, "false": true}

func (tr *translator) declare(s *scope, n string, t *gty) string {
	if n == "_" {
		return "_"
	}
	lean := n
	if leanReserved[lean] {
		lean = lean + "_"
	}
	for i := 1; tr.used[lean]; i++ {
		lean = fmt.Sprintf("%s_%d", n, i)
	}
	tr.used[lean] = true
	s.vars[n] = &varInfo{lean: lean, t: t}
	return lean
}

// ---------------------------------------------------------------- function context

type fctx struct {
	tr     *translator
	fi     *funcInfo
	ret    func(v string) string // how `return v` is emitted here
	cont   func() string         // `continue` (nil outside loops)
	brk    func() string         // `break`
	inLoop bool
}

func (c *fctx) wrapRet(v string) string {
	if c.fi.fuel {
		return "(some " + v + ")"
	}
	return v
}

// ---------------------------------------------------------------- expressions

func zeroOf(t *gty) string {
	switch t.k {
	case "u64", "u32", "u8", "int":
		return "(0 : " + t.lean() + ")"
	case "bool":
		return "false"
	case "string":
		return "\"\""
	case "slice", "map":
		return "([] : " + t.lean() + ")"
	case "error":
		return "(none : Option String)"
	case "opt":
		return "(none : " + t.lean() + ")"
	}
	return "(default : " + t.lean() + ")"
}

func (c *fctx) lit(x *ast.BasicLit, hint *gty) (string, *gty) {
	switch x.Kind {
	case token.INT:
		v := x.Value
		if strings.HasPrefix(v, "0x") || strings.HasPrefix(v, "0X") {
			v = "0x" + v[2:]
		}
		if hint != nil && hint.isNum() {
			return "(" + v + " : " + hint.lean() + ")", hint
		}
		return v, tUntyped
	case token.STRING:
		if strings.HasPrefix(x.Value, "\"") {
			return x.Value, tString
		}
	}
	trFail("literal %s", x.Value)
	return "", nil
}

func (c *fctx) expr(s *scope, e ast.Expr, hint *gty) (string, *gty) {
	switch x := e.(type) {
	case *ast.ParenExpr:
		return c.expr(s, x.X, hint)
	case *ast.BasicLit:
		return c.lit(x, hint)
	case *ast.Ident:
		switch x.Name {
		case "true":
			return "true", tBool
		case "false":
			return "false", tBool
		case "nil":
			if hint != nil && hint.k == "error" {
				return "(none : Option String)", tError
			}
			if hint != nil && (hint.k == "slice" || hint.k == "map") {
				return zeroOf(hint), hint
			}
			if hint != nil && hint.k == "opt" {
				return "(none : " + hint.lean() + ")", hint
			}
			trFail("nil without a slice/map/error context")
		}
		if v := s.lookup(x.Name); v != nil {
			return v.lean, v.t
		}
		if hint != nil && hint.k == "error" { // a package-level error value: identified by its name
			return "(some \"" + x.Name + "\")", tError
		}
		if cv, ok := c.tr.consts[c.fi.pkg][x.Name]; ok {
			return c.constVal(cv, hint)
		}
		trFail("unknown identifier %s", x.Name)
	case *ast.SelectorExpr:
		if id, ok := x.X.(*ast.Ident); ok && s.lookup(id.Name) == nil {
			// package-qualified
			if id.Name == "math" && x.Sel.Name == "MaxUint64" {
				return "(18446744073709551615 : UInt64)", tU64
			}
			if env, ok := c.tr.consts[id.Name]; ok {
				if cv, ok := env[x.Sel.Name]; ok {
					return c.constVal(cv, hint)
				}
			}
			if hint != nil && hint.k == "error" {
				return "(some \"" + x.Sel.Name + "\")", tError // an error value is identified by its NAME, whichever package spells it
			}
			trFail("unknown qualified identifier %s.%s", id.Name, x.Sel.Name)
		}
		base, bt := c.expr(s, x.X, nil)
		if bt.k == "opt" && bt.elem.k == "struct" {
			// field through a pointer that may be nil: Go panics on nil, here the zero value (panics are not modelled)
			base, bt = "(Option.getD "+base+" default)", bt.elem
		}
		if bt.k != "struct" {
			trFail("field %s of a non-struct", x.Sel.Name)
		}
		si := c.tr.structOf(bt)
		ft, ok := si.ftypes[x.Sel.Name]
		if !ok {
			trFail("field %s.%s is not modelled (pointer, function or foreign type)", bt.name, x.Sel.Name)
		}
		return base + "." + x.Sel.Name, ft
	case *ast.SliceExpr:
		if x.Low == nil && x.High == nil && x.Max == nil {
			return c.expr(s, x.X, hint) // a[:] of an array / slice: the same elements
		}
		trFail("slice expression with bounds")
	case *ast.CompositeLit:
		if at, ok := x.Type.(*ast.ArrayType); ok && at.Len == nil {
			t := c.tr.resolve(c.fi.pkg, x.Type)
			if !t.ok() {
				trFail("slice literal of an unmodelled type")
			}
			var els []string
			for _, el := range x.Elts {
				v, vt := c.expr(s, el, t.elem)
				if vt.lean() != t.elem.lean() {
					trFail("slice literal element type")
				}
				els = append(els, v)
			}
			return "([" + strings.Join(els, ", ") + "] : " + t.lean() + ")", t
		}
		t := c.tr.resolve(c.fi.pkg, x.Type)
		if t.k == "struct" && len(x.Elts) == 0 {
			return "(default : " + t.lean() + ")", t
		}
		trFail("composite literal (only the zero value T{} is supported)")
	case *ast.UnaryExpr:
		switch x.Op {
		case token.AND:
			a, t := c.expr(s, x.X, nil)
			if t.k != "struct" {
				trFail("& of a non-struct")
			}
			if hint != nil && hint.k == "opt" {
				return "(some " + a + ")", hint
			}
			return a, t
		case token.NOT:
			a, _ := c.expr(s, x.X, tBool)
			return "(!" + a + ")", tBool
		case token.SUB:
			a, t := c.expr(s, x.X, hint)
			return "(-" + a + ")", t
		}
		trFail("unary %s", x.Op)
	case *ast.BinaryExpr:
		return c.binary(s, x, hint)
	case *ast.IndexExpr:
		base, bt := c.expr(s, x.X, nil)
		switch bt.k {
		case "map":
			if !c.tr.eqSafe(bt.key) {
				trFail("map keyed by a type whose == is not structural (pointer inside)")
			}
			k, _ := c.expr(s, x.Index, bt.key)
			return "(Go.mapGet " + base + " " + k + ")", bt.elem
		case "slice":
			i, it := c.expr(s, x.Index, tInt)
			return "(Go.idx " + base + " " + c.toInt(i, it) + ")", bt.elem
		}
		trFail("index of %s", bt.k)
	case *ast.CallExpr:
		return c.call(s, x, hint)
	}
	trFail("expression %T", e)
	return "", nil
}

func (c *fctx) constVal(cv any, hint *gty) (string, *gty) {
	switch v := cv.(type) {
	case int64:
		if hint != nil && hint.isNum() {
			return fmt.Sprintf("(%d : %s)", v, hint.lean()), hint
		}
		return fmt.Sprintf("%d", v), tUntyped
	case string:
		return leanStr(v), tString
	}
	trFail("constant of unsupported kind")
	return "", nil
}

func (c *fctx) toInt(e string, t *gty) string {
	switch t.k {
	case "int", "untyped":
		return e
	case "u64":
		return "(Go.u64ToInt " + e + ")"
	}
	trFail("conversion to int from %s", t.k)
	return ""
}

func (c *fctx) toNat(e string, t *gty) string {
	switch t.k {
	case "int":
		return "(Int.toNat " + e + ")"
	case "untyped":
		return "(Int.toNat (" + e + " : Int))"
	case "u64":
		return "(UInt64.toNat " + e + ")"
	}
	trFail("shift count of type %s", t.k)
	return ""
}

func (c *fctx) binary(s *scope, x *ast.BinaryExpr, hint *gty) (string, *gty) {
	switch x.Op {
	case token.LAND, token.LOR:
		a, _ := c.expr(s, x.X, tBool)
		b, _ := c.expr(s, x.Y, tBool)
		op := "&&"
		if x.Op == token.LOR {
			op = "||"
		}
		return "(" + a + " " + op + " " + b + ")", tBool
	case token.SHL, token.SHR:
		h := hint
		if h == nil || !h.isNum() {
			h = nil
		}
		a, at := c.expr(s, x.X, h)
		if at.k == "untyped" {
			trFail("shift of an untyped constant without a typed context")
		}
		if at.k != "u64" {
			trFail("shift on %s", at.k)
		}
		n, nt := c.expr(s, x.Y, nil)
		f := "Go.shl"
		if x.Op == token.SHR {
			f = "Go.shr"
		}
		return "(" + f + " " + a + " " + c.toNat(n, nt) + ")", at
	}
	cmp := map[token.Token]string{token.LSS: "<", token.LEQ: "≤", token.GTR: ">", token.GEQ: "≥"}
	arith := map[token.Token]string{token.ADD: "+", token.SUB: "-", token.MUL: "*", token.AND: "&&&", token.OR: "|||", token.XOR: "^^^"}
	_, isCmp := cmp[x.Op]
	isEq := x.Op == token.EQL || x.Op == token.NEQ
	if isEq {
		isNil := func(e ast.Expr) bool { id, ok := e.(*ast.Ident); return ok && id.Name == "nil" && s.lookup("nil") == nil }
		var other ast.Expr
		if isNil(x.Y) {
			other = x.X
		} else if isNil(x.X) {
			other = x.Y
		}
		if other != nil {
			v, vt := c.expr(s, other, nil)
			var test string
			switch vt.k {
			case "slice":
				test = "(List.isEmpty " + v + ")" // a nil slice and an empty slice are the same list here
			case "opt", "error":
				test = "(Option.isNone " + v + ")"
			default:
				trFail("comparison of %s with nil", vt.k)
			}
			if x.Op == token.NEQ {
				test = "(!" + test + ")"
			}
			return test, tBool
		}
	}
	var h *gty
	if !isCmp && !isEq {
		h = hint
	}
	a, at := c.expr(s, x.X, h)
	b, bt := c.expr(s, x.Y, h)
	if at.k == "untyped" && bt.k != "untyped" {
		a, at = c.expr(s, x.X, bt)
	}
	if bt.k == "untyped" && at.k != "untyped" {
		b, bt = c.expr(s, x.Y, at)
	}
	if at.k == "untyped" && bt.k == "untyped" {
		a, at = c.expr(s, x.X, tInt)
		b, bt = c.expr(s, x.Y, tInt)
	}
	if at.k != bt.k || at.name != bt.name {
		trFail("operands of %s have different types %s / %s", x.Op, at.lean(), bt.lean())
	}
	if isCmp {
		if !at.isNum() && at.k != "string" {
			trFail("ordering on %s", at.k)
		}
		return "(decide (" + a + " " + cmp[x.Op] + " " + b + "))", tBool
	}
	if isEq {
		if !c.tr.eqSafe(at) {
			trFail("== on %s is not structural equality in Go (pointer inside) or the type is not comparable", at.lean())
		}
		if x.Op == token.EQL {
			return "(" + a + " == " + b + ")", tBool
		}
		return "(" + a + " != " + b + ")", tBool
	}
	if at.k == "string" && x.Op == token.ADD {
		return "(" + a + " ++ " + b + ")", tString
	}
	if !at.isNum() {
		trFail("arithmetic on %s", at.k)
	}
	if op, ok := arith[x.Op]; ok {
		return "(" + a + " " + op + " " + b + ")", at
	}
	switch x.Op {
	case token.QUO:
		if at.k == "int" {
			return "(Int.tdiv " + a + " " + b + ")", at
		}
		return "(" + a + " / " + b + ")", at
	case token.REM:
		if at.k == "int" {
			return "(Int.tmod " + a + " " + b + ")", at
		}
		return "(" + a + " % " + b + ")", at
	}
	trFail("operator %s", x.Op)
	return "", nil
}

func (c *fctx) external(s *scope, key string, x *ast.CallExpr) (string, *gty) {
	ef := externals[key]
	if key == "nut10.DeserializeSecret" && ef.result == nil {
		ef.result = &gty{k: "tuple", items: []*gty{c.tr.named("nut10", "WellKnownSecret"), tError}}
	}
	seen := false
	for _, u := range c.tr.extUsed {
		if u == key {
			seen = true
		}
	}
	if !seen {
		c.tr.extUsed = append(c.tr.extUsed, key)
	}
	if ef.result.k == "tuple" {
		for _, it := range ef.result.items {
			if it.k == "opaque" {
				c.tr.opaqueUsed[it.name] = true
			}
		}
	}
	parts := []string{ef.param}
	for _, a := range x.Args {
		v, vt := c.expr(s, a, nil)
		if vt.k == "untyped" {
			v, _ = c.expr(s, a, tInt)
		}
		parts = append(parts, v)
	}
	return "(" + strings.Join(parts, " ") + ")", ef.result
}

func (c *fctx) useExt(key string) *extFn {
	seen := false
	for _, u := range c.tr.extUsed {
		if u == key {
			seen = true
		}
	}
	if !seen {
		c.tr.extUsed = append(c.tr.extUsed, key)
	}
	return externals[key]
}

func (c *fctx) call(s *scope, x *ast.CallExpr, hint *gty) (string, *gty) {
	switch exprString(x) {
	case "time.Now().Local().Unix()", "time.Now().Unix()":
		return c.useExt("time.now").param, tInt
	}
	if sel, ok := x.Fun.(*ast.SelectorExpr); ok && exprString(sel) == "sha256.Sum256" && len(x.Args) == 1 {
		// sha256.Sum256([]byte(str)): the digest of a string, as an external function
		if conv, ok := x.Args[0].(*ast.CallExpr); ok && exprString(conv.Fun) == "[]byte" && len(conv.Args) == 1 {
			a, at := c.expr(s, conv.Args[0], tString)
			if at.k == "string" {
				return "(" + c.useExt("sha256.string").param + " " + a + ")", &gty{k: "slice", elem: tU8}
			}
		}
		a, at := c.expr(s, x.Args[0], nil)
		if at.k == "slice" && at.elem.k == "u8" {
			return "(" + c.useExt("sha256.bytes").param + " " + a + ")", &gty{k: "slice", elem: tU8}
		}
		trFail("sha256.Sum256 of something that is neither []byte(string) nor a byte slice")
	}
	if sel, ok := x.Fun.(*ast.SelectorExpr); ok {
		if id, ok := sel.X.(*ast.Ident); ok && s.lookup(id.Name) == nil {
			key := id.Name + "." + sel.Sel.Name
			if _, ok := externals[key]; ok {
				return c.external(s, key, x)
			}
			if key == "reflect.DeepEqual" && len(x.Args) == 2 {
				a, at := c.expr(s, x.Args[0], nil)
				b, bt := c.expr(s, x.Args[1], at)
				// DeepEqual follows pointers: on a slice of opaque tokens (the VALUES the pointers stand for) it is list equality
				if at.lean() == bt.lean() && at.k == "slice" && (at.elem.k == "opaque" || c.tr.eqSafe(at.elem)) {
					return "(" + a + " == " + b + ")", tBool
				}
				trFail("reflect.DeepEqual on %s", at.lean())
			}
			if key == "slices.Delete" && len(x.Args) == 3 {
				a, at := c.expr(s, x.Args[0], hint)
				if at.k != "slice" {
					trFail("slices.Delete of a non-slice")
				}
				i, it := c.expr(s, x.Args[1], tInt)
				j, jt := c.expr(s, x.Args[2], tInt)
				return "(Go.sliceDelete " + a + " " + c.toNat(i, it) + " " + c.toNat(j, jt) + ")", at
			}
			if key == "fmt.Sprintf" {
				// only the FORMAT is kept: the rendered arguments never influence control flow in the translated set
				if bl, ok := x.Args[0].(*ast.BasicLit); ok && bl.Kind == token.STRING {
					return "(Go.sprintf " + bl.Value + ")", tString
				}
				trFail("Sprintf with a computed format")
			}
			if key == "cashu.BuildCashuError" {
				// an error VALUE built from a message: identified by the message
				m, mt := c.expr(s, x.Args[0], tString)
				if mt.k != "string" {
					trFail("BuildCashuError message")
				}
				return "(some " + m + ")", tError
			}
		}
	}
	if id, ok := x.Fun.(*ast.Ident); ok && s.lookup(id.Name) == nil {
		if _, ok := externals[c.fi.pkg+"."+id.Name]; ok && c.tr.funcs[c.fi.pkg+".."+id.Name] == nil {
			return c.external(s, c.fi.pkg+"."+id.Name, x)
		}
	}
	if id, ok := x.Fun.(*ast.Ident); ok && s.lookup(id.Name) == nil {
		switch id.Name {
		case "len":
			a, at := c.expr(s, x.Args[0], nil)
			if at.k == "string" {
				return "(Int.ofNat (String.utf8ByteSize " + a + "))", tInt // len of a string counts BYTES
			}
			if at.k != "slice" && at.k != "map" {
				trFail("len of %s", at.k)
			}
			if at.k == "map" {
				trFail("len of a map (the association list may hold shadowed entries)")
			}
			return "(Int.ofNat (List.length " + a + "))", tInt
		case "append":
			a, at := c.expr(s, x.Args[0], hint)
			if at.k == "slice" && x.Ellipsis != token.NoPos && len(x.Args) == 2 {
				b, bt := c.expr(s, x.Args[1], at)
				if bt.lean() != at.lean() {
					trFail("append of another slice type")
				}
				return "(" + a + " ++ " + b + ")", at
			}
			if at.k != "slice" || x.Ellipsis != token.NoPos {
				trFail("append form")
			}
			var els []string
			for _, ar := range x.Args[1:] {
				v, vt := c.expr(s, ar, at.elem)
				if vt.k != at.elem.k {
					trFail("append element type")
				}
				els = append(els, v)
			}
			return "(" + a + " ++ [" + strings.Join(els, ", ") + "])", at
		case "make":
			t := c.tr.resolve(c.fi.pkg, x.Args[0])
			if !t.ok() {
				trFail("make of an unmodelled type")
			}
			if t.k == "map" {
				return zeroOf(t), t
			}
			if t.k == "slice" {
				if len(x.Args) == 1 {
					return zeroOf(t), t
				}
				if bl, ok := x.Args[1].(*ast.BasicLit); ok && bl.Value == "0" {
					return zeroOf(t), t
				}
				n, nt := c.expr(s, x.Args[1], tInt)
				if len(x.Args) > 2 {
					return zeroOf(t), t // make([]T, 0, cap)
				}
				return "(List.replicate " + c.toNat(n, nt) + " " + zeroOf(t.elem) + ")", t
			}
			trFail("make")
		case "uint64", "uint":
			a, at := c.expr(s, x.Args[0], tU64)
			switch at.k {
			case "u64":
				return a, tU64
			case "int":
				return "(Go.intToU64 " + a + ")", tU64
			case "u32":
				return "(UInt32.toUInt64 " + a + ")", tU64
			}
			trFail("conversion to uint64 from %s", at.k)
		case "int":
			a, at := c.expr(s, x.Args[0], tInt)
			return c.toInt(a, at), tInt
		}
		if fi := c.tr.funcs[c.fi.pkg+".."+id.Name]; fi != nil {
			return c.callFn(s, fi, nil, x.Args)
		}
		trFail("call of %s (not in the translated set)", id.Name)
	}
	if sel, ok := x.Fun.(*ast.SelectorExpr); ok {
		if id, ok := sel.X.(*ast.Ident); ok && s.lookup(id.Name) == nil {
			if fi := c.tr.funcs[id.Name+".."+sel.Sel.Name]; fi != nil {
				return c.callFn(s, fi, nil, x.Args)
			}
			trFail("call of %s.%s (not in the translated set)", id.Name, sel.Sel.Name)
		}
		// err.Error(): the text that identifies the error value
		if id, ok := sel.X.(*ast.Ident); ok && sel.Sel.Name == "Error" && len(x.Args) == 0 {
			if v := s.lookup(id.Name); v != nil && v.t.k == "error" {
				return "(Option.getD " + v.lean + " \"\")", tString
			}
		}
		// method of an opaque foreign value
		if id, ok := sel.X.(*ast.Ident); ok {
			if v := s.lookup(id.Name); v != nil && v.t.k == "opaque" {
				key := v.t.name + "." + sel.Sel.Name
				if ef, ok := externals[key]; ok {
					seen := false
					for _, u := range c.tr.extUsed {
						if u == key {
							seen = true
						}
					}
					if !seen {
						c.tr.extUsed = append(c.tr.extUsed, key)
					}
					parts := []string{ef.param, v.lean}
					for _, a := range x.Args {
						av, _ := c.expr(s, a, nil)
						parts = append(parts, av)
					}
					return "(" + strings.Join(parts, " ") + ")", ef.result
				}
				trFail("method %s of an opaque value", key)
			}
		}
		// method call on a value
		for _, fi := range c.tr.funcs {
			if fi.recv != "" && fi.name == sel.Sel.Name {
				rt := c.tr.resolve(fi.pkg, fi.fd.Recv.List[0].Type)
				base, bt := c.expr(s, sel.X, rt)
				if bt.lean() == rt.lean() {
					return c.callFn(s, fi, &base, x.Args)
				}
			}
		}
		trFail("method call %s (not in the translated set)", sel.Sel.Name)
	}
	trFail("call form")
	return "", nil
}

func (c *fctx) callFn(s *scope, fi *funcInfo, recv *string, args []ast.Expr) (string, *gty) {
	if fi.fuel {
		trFail("call of %s, which needs fuel", fi.lean)
	}
	parts := []string{fi.lean}
	// the callee's external parameters are the caller's too (same names), passed on in the callee's order
	for _, key := range fi.exts {
		seen := false
		for _, u := range c.tr.extUsed {
			if u == key {
				seen = true
			}
		}
		if !seen {
			c.tr.extUsed = append(c.tr.extUsed, key)
		}
		parts = append(parts, externals[key].param)
	}
	ps := fi.params
	if recv != nil {
		parts = append(parts, *recv)
		ps = ps[1:]
	}
	if len(args) != len(ps) {
		trFail("argument count of %s", fi.lean)
	}
	for i, a := range args {
		v, vt := c.expr(s, a, ps[i])
		if vt.lean() != ps[i].lean() {
			trFail("argument %d of %s: %s for %s", i, fi.lean, vt.lean(), ps[i].lean())
		}
		parts = append(parts, v)
	}
	return "(" + strings.Join(parts, " ") + ")", fi.result
}

// ---------------------------------------------------------------- statements

// variables of enclosing scopes that the statements assign (in order of first assignment)
func assigned(stmts []ast.Stmt, s *scope) []string {
	var out []string
	seen := map[string]bool{}
	local := map[string]bool{}
	add := func(e ast.Expr, define bool) {
		for {
			if ix, ok := e.(*ast.IndexExpr); ok {
				e = ix.X
				define = false
				continue
			}
			if se, ok := e.(*ast.SelectorExpr); ok {
				e = se.X
				define = false
				continue
			}
			break
		}
		id, ok := e.(*ast.Ident)
		if !ok || id.Name == "_" {
			return
		}
		if define {
			// NOTE: conservative — a `:=` that redeclares is treated as local from here on
			local[id.Name] = true
			return
		}
		if local[id.Name] || seen[id.Name] || s.lookup(id.Name) == nil {
			return
		}
		seen[id.Name] = true
		out = append(out, id.Name)
	}
	var walk func(n ast.Node) bool
	walk = func(n ast.Node) bool {
		switch x := n.(type) {
		case *ast.AssignStmt:
			for _, l := range x.Lhs {
				add(l, x.Tok == token.DEFINE)
			}
			if len(x.Rhs) == 1 {
				if call, ok := x.Rhs[0].(*ast.CallExpr); ok && exprString(call.Fun) == "json.Unmarshal" && len(call.Args) == 2 {
					if ref, ok := call.Args[1].(*ast.UnaryExpr); ok {
						add(ref.X, false)
					}
				}
			}
		case *ast.IncDecStmt:
			add(x.X, false)
		case *ast.ExprStmt:
			if call, ok := x.X.(*ast.CallExpr); ok {
				if id, ok := call.Fun.(*ast.Ident); ok && id.Name == "copy" && len(call.Args) == 2 {
					add(call.Args[0], false)
				}
				if exprString(call.Fun) == "json.Unmarshal" && len(call.Args) == 2 {
					if ref, ok := call.Args[1].(*ast.UnaryExpr); ok {
						add(ref.X, false)
					}
				}
			}
		case *ast.RangeStmt:
			if x.Tok == token.DEFINE {
				if x.Key != nil {
					add(x.Key, true)
				}
				if x.Value != nil {
					add(x.Value, true)
				}
			}
		case *ast.DeclStmt:
			if gd, ok := x.Decl.(*ast.GenDecl); ok {
				for _, sp := range gd.Specs {
					if vs, ok := sp.(*ast.ValueSpec); ok {
						for _, n := range vs.Names {
							local[n.Name] = true
						}
					}
				}
			}
		case *ast.FuncLit:
			trFail("closure")
		}
		return true
	}
	for _, st := range stmts {
		ast.Inspect(st, walk)
	}
	return out
}

func tuple(xs []string) string {
	if len(xs) == 0 {
		return "()"
	}
	return "(" + strings.Join(xs, ", ") + ")"
}

func (c *fctx) stateOf(s *scope, vars []string) (string, string) {
	var ns, ts []string
	for _, v := range vars {
		vi := s.lookup(v)
		ns = append(ns, vi.lean)
		ts = append(ts, vi.t.lean())
	}
	ty := "Unit"
	if len(ts) > 0 {
		ty = strings.Join(ts, " × ")
	}
	return tuple(ns), ty
}

func ind(n int) string { return strings.Repeat("  ", n) }

// block translates stmts; k produces what follows them (in the scope the block was entered from)
func (c *fctx) block(s *scope, stmts []ast.Stmt, d int, k func() string) string {
	if len(stmts) == 0 {
		return k()
	}
	st, rest := stmts[0], stmts[1:]
	next := func() string { return c.block(s, rest, d, k) }
	switch x := st.(type) {
	case *ast.EmptyStmt:
		return next()
	case *ast.BlockStmt:
		inner := &scope{parent: s, vars: map[string]*varInfo{}}
		return c.block(inner, x.List, d, next)
	case *ast.DeclStmt:
		gd, ok := x.Decl.(*ast.GenDecl)
		if !ok || gd.Tok != token.VAR {
			trFail("declaration")
		}
		out := ""
		for _, sp := range gd.Specs {
			vs := sp.(*ast.ValueSpec)
			var t *gty
			if vs.Type != nil {
				t = c.tr.resolve(c.fi.pkg, vs.Type)
				if !t.ok() {
					trFail("variable of an unmodelled type")
				}
			}
			for i, n := range vs.Names {
				var val string
				vt := t
				if i < len(vs.Values) {
					val, vt = c.expr(s, vs.Values[i], t)
					if t != nil {
						vt = t
					} else if vt.k == "untyped" {
						vt = tInt
					}
				} else {
					val = zeroOf(t)
				}
				ln := c.tr.declare(s, n.Name, vt)
				out += ind(d) + "let " + ln + " : " + vt.lean() + " := " + val + "\n"
			}
		}
		return out + next()
	case *ast.IncDecStmt:
		id, ok := x.X.(*ast.Ident)
		if !ok {
			trFail("++ on a non-variable")
		}
		v := s.lookup(id.Name)
		if v == nil || !v.t.isNum() {
			trFail("++ on %s", id.Name)
		}
		op := "+"
		if x.Tok == token.DEC {
			op = "-"
		}
		return ind(d) + "let " + v.lean + " : " + v.t.lean() + " := " + v.lean + " " + op + " 1\n" + next()
	case *ast.AssignStmt:
		return c.assign(s, x, d) + next()
	case *ast.ExprStmt:
		if call, ok := x.X.(*ast.CallExpr); ok {
			if id, ok := call.Fun.(*ast.Ident); ok && id.Name == "copy" && len(call.Args) == 2 && s.lookup("copy") == nil {
				dst, ok := call.Args[0].(*ast.Ident)
				if !ok {
					trFail("copy into a non-variable")
				}
				v := s.lookup(dst.Name)
				src, st := c.expr(s, call.Args[1], nil)
				if v == nil || v.t.k != "slice" || st.lean() != v.t.lean() {
					trFail("copy between different slice types")
				}
				return ind(d) + "let " + v.lean + " : " + v.t.lean() + " := Go.copySlice " + v.lean + " " + src + "\n" + next()
			}
		}
		if call, ok := x.X.(*ast.CallExpr); ok && exprString(call.Fun) == "json.Unmarshal" && len(call.Args) == 2 {
			// json.Unmarshal([]byte(str), &v) with the error IGNORED: v becomes whatever the decoder leaves in it
			conv, ok1 := call.Args[0].(*ast.CallExpr)
			ref, ok2 := call.Args[1].(*ast.UnaryExpr)
			if ok1 && ok2 && exprString(conv.Fun) == "[]byte" && ref.Op == token.AND {
				if id, ok := ref.X.(*ast.Ident); ok {
					v := s.lookup(id.Name)
					a, at := c.expr(s, conv.Args[0], tString)
					if v != nil && v.t.k == "struct" && at.k == "string" {
						key := "json.Unmarshal:" + v.t.name
						if _, ok := externals[key]; !ok {
							externals[key] = &extFn{"ext_Unmarshal_" + v.t.name, "String → " + v.t.name + " → " + v.t.name, v.t}
						}
						return ind(d) + "let " + v.lean + " : " + v.t.lean() + " := " + c.useExt(key).param + " " + a + " " + v.lean + "\n" + next()
					}
				}
			}
			trFail("json.Unmarshal form")
		}
		trFail("expression statement (a call whose effect is not modelled)")
	case *ast.ReturnStmt:
		var vs []string
		for i, r := range x.Results {
			var h *gty
			if c.fi.result.k == "tuple" {
				h = c.fi.result.items[i]
			} else {
				h = c.fi.result
			}
			v, vt := c.expr(s, r, h)
			if vt.k == "untyped" {
				v, vt = c.expr(s, r, tInt)
			}
			if vt.lean() != h.lean() {
				trFail("return value %d: %s for %s", i, vt.lean(), h.lean())
			}
			vs = append(vs, v)
		}
		if len(vs) == 0 {
			trFail("bare return")
		}
		return ind(d) + c.ret(tuple(vs)) + "\n"
	case *ast.BranchStmt:
		if x.Label != nil {
			trFail("labelled branch")
		}
		switch x.Tok {
		case token.CONTINUE:
			if c.cont == nil {
				trFail("continue outside a loop")
			}
			return ind(d) + c.cont() + "\n"
		case token.BREAK:
			if c.brk == nil {
				trFail("break outside a loop")
			}
			return ind(d) + c.brk() + "\n"
		}
		trFail("branch statement")
	case *ast.IfStmt:
		inner := &scope{parent: s, vars: map[string]*varInfo{}}
		out := ""
		if x.Init != nil {
			as, ok := x.Init.(*ast.AssignStmt)
			if !ok {
				trFail("if-initialiser")
			}
			out += c.assign(inner, as, d)
		}
		cond, _ := c.expr(inner, x.Cond, tBool)
		thenS := &scope{parent: inner, vars: map[string]*varInfo{}}
		out += ind(d) + "if " + cond + " then (\n" + c.block(thenS, x.Body.List, d+1, next)
		out += ind(d) + ") else (\n"
		switch e := x.Else.(type) {
		case nil:
			out += c.blockAt(next, d+1)
		case *ast.BlockStmt:
			elseS := &scope{parent: inner, vars: map[string]*varInfo{}}
			out += c.block(elseS, e.List, d+1, next)
		case *ast.IfStmt:
			out += c.block(inner, []ast.Stmt{e}, d+1, next)
		}
		return out + ind(d) + ")\n"
	case *ast.SwitchStmt:
		if x.Init != nil {
			trFail("switch with an initialiser")
		}
		var chain ast.Stmt
		var dflt *ast.CaseClause
		var clauses []*ast.CaseClause
		for _, cc := range x.Body.List {
			cl := cc.(*ast.CaseClause)
			ast.Inspect(cl, func(n ast.Node) bool {
				if b, ok := n.(*ast.BranchStmt); ok && (b.Tok == token.FALLTHROUGH || b.Tok == token.BREAK) {
					trFail("fallthrough / break inside a switch")
				}
				return true
			})
			if cl.List == nil {
				dflt = cl
			} else {
				clauses = append(clauses, cl)
			}
		}
		if dflt != nil {
			chain = &ast.BlockStmt{List: dflt.Body}
		}
		for i := len(clauses) - 1; i >= 0; i-- {
			cl := clauses[i]
			var cond ast.Expr
			for _, e := range cl.List {
				var t ast.Expr = e
				if x.Tag != nil {
					t = &ast.BinaryExpr{X: x.Tag, Op: token.EQL, Y: e}
				}
				if cond == nil {
					cond = t
				} else {
					cond = &ast.BinaryExpr{X: cond, Op: token.LOR, Y: t}
				}
			}
			chain = &ast.IfStmt{Cond: cond, Body: &ast.BlockStmt{List: cl.Body}, Else: chain}
		}
		if chain == nil {
			return next()
		}
		return c.block(s, append([]ast.Stmt{chain}, rest...), d, k)
	case *ast.RangeStmt:
		return c.rangeLoop(s, x, d, next)
	case *ast.ForStmt:
		return c.forLoop(s, x, d, next)
	}
	trFail("statement %T", st)
	return ""
}

// the continuation re-indented is not needed (Lean's `let`/`if` terms are layout-insensitive inside parentheses);
// every nested term is parenthesised by the callers instead
func (c *fctx) blockAt(k func() string, d int) string { return k() }

func (c *fctx) assign(s *scope, x *ast.AssignStmt, d int) string {
	define := x.Tok == token.DEFINE
	if x.Tok != token.ASSIGN && !define {
		// op-assignment
		if len(x.Lhs) != 1 {
			trFail("op-assignment form")
		}
		id, ok := x.Lhs[0].(*ast.Ident)
		if !ok {
			trFail("op-assignment to a non-variable")
		}
		v := s.lookup(id.Name)
		if v == nil {
			trFail("unknown variable %s", id.Name)
		}
		opTok := map[token.Token]token.Token{token.ADD_ASSIGN: token.ADD, token.SUB_ASSIGN: token.SUB, token.MUL_ASSIGN: token.MUL,
			token.QUO_ASSIGN: token.QUO, token.REM_ASSIGN: token.REM, token.AND_ASSIGN: token.AND, token.OR_ASSIGN: token.OR,
			token.XOR_ASSIGN: token.XOR, token.SHL_ASSIGN: token.SHL, token.SHR_ASSIGN: token.SHR}[x.Tok]
		val, vt := c.binary(s, &ast.BinaryExpr{X: id, Op: opTok, Y: x.Rhs[0]}, v.t)
		if vt.lean() != v.t.lean() {
			trFail("op-assignment type")
		}
		return ind(d) + "let " + v.lean + " : " + v.t.lean() + " := " + val + "\n"
	}
	// err := json.Unmarshal([]byte(str), &v) with the error checked: the decoder returns the value it leaves and the error
	if len(x.Lhs) == 1 && len(x.Rhs) == 1 {
		if call, ok := x.Rhs[0].(*ast.CallExpr); ok && exprString(call.Fun) == "json.Unmarshal" && len(call.Args) == 2 {
			conv, ok1 := call.Args[0].(*ast.CallExpr)
			ref, ok2 := call.Args[1].(*ast.UnaryExpr)
			if ok1 && ok2 && exprString(conv.Fun) == "[]byte" && ref.Op == token.AND {
				if id, ok := ref.X.(*ast.Ident); ok {
					v := s.lookup(id.Name)
					a, at := c.expr(s, conv.Args[0], tString)
					if v != nil && v.t.k == "struct" && at.k == "string" {
						key := "json.UnmarshalE:" + v.t.name
						if _, ok := externals[key]; !ok {
							externals[key] = &extFn{"ext_UnmarshalE_" + v.t.name, "String → " + v.t.name + " → " + v.t.name + " × Option String", nil}
						}
						e := c.target(s, x.Lhs[0], tError, define)
						return ind(d) + "match " + c.useExt(key).param + " " + a + " " + v.lean + " with\n" + ind(d) + "| (" + v.lean + ", " + e + ") =>\n"
					}
				}
			}
			trFail("json.Unmarshal form")
		}
	}
	// comma-ok map read
	if len(x.Lhs) == 2 && len(x.Rhs) == 1 {
		if ix, ok := x.Rhs[0].(*ast.IndexExpr); ok {
			base, bt := c.expr(s, ix.X, nil)
			if bt.k != "map" {
				trFail("comma-ok on a non-map")
			}
			k, _ := c.expr(s, ix.Index, bt.key)
			a := c.target(s, x.Lhs[0], bt.elem, define)
			b := c.target(s, x.Lhs[1], tBool, define)
			return ind(d) + "match Go.mapGet2 " + base + " " + k + " with\n" + ind(d) + "| (" + a + ", " + b + ") =>\n"
		}
		// multi-value call
		val, vt := c.expr(s, x.Rhs[0], nil)
		if vt.k != "tuple" || len(vt.items) != 2 {
			trFail("two-value assignment from a non-pair")
		}
		a := c.target(s, x.Lhs[0], vt.items[0], define)
		b := c.target(s, x.Lhs[1], vt.items[1], define)
		return ind(d) + "match " + val + " with\n" + ind(d) + "| (" + a + ", " + b + ") =>\n"
	}
	if len(x.Lhs) != len(x.Rhs) {
		trFail("assignment form")
	}
	if len(x.Lhs) > 1 {
		// parallel assignment: evaluate all right-hand sides first
		var vals []string
		var tys []*gty
		for i, r := range x.Rhs {
			var h *gty
			if id, ok := x.Lhs[i].(*ast.Ident); ok {
				if v := s.lookup(id.Name); v != nil && !define {
					h = v.t
				}
			}
			v, vt := c.expr(s, r, h)
			if vt.k == "untyped" {
				v, vt = c.expr(s, r, tInt)
			}
			vals = append(vals, v)
			tys = append(tys, vt)
		}
		var ts []string
		for i, l := range x.Lhs {
			ts = append(ts, c.target(s, l, tys[i], define))
		}
		return ind(d) + "match " + tuple(vals) + " with\n" + ind(d) + "| " + tuple(ts) + " =>\n"
	}
	// single
	if ix, ok := x.Lhs[0].(*ast.IndexExpr); ok && !define {
		id, ok := ix.X.(*ast.Ident)
		if !ok {
			trFail("indexed assignment to a non-variable")
		}
		v := s.lookup(id.Name)
		if v != nil && v.t.k == "slice" {
			i, it := c.expr(s, ix.Index, tInt)
			val, vt := c.expr(s, x.Rhs[0], v.t.elem)
			if vt.lean() != v.t.elem.lean() {
				trFail("slice element type")
			}
			// Go panics when the index is out of range; List.set leaves the list unchanged
			return ind(d) + "let " + v.lean + " : " + v.t.lean() + " := List.set " + v.lean + " " + c.toNat(i, it) + " " + val + "\n"
		}
		if v == nil || v.t.k != "map" {
			trFail("indexed assignment supported on maps and slices only")
		}
		if !c.tr.eqSafe(v.t.key) {
			trFail("map keyed by a type whose == is not structural (pointer inside)")
		}
		k, _ := c.expr(s, ix.Index, v.t.key)
		val, vt := c.expr(s, x.Rhs[0], v.t.elem)
		if vt.lean() != v.t.elem.lean() {
			trFail("map value type")
		}
		return ind(d) + "let " + v.lean + " : " + v.t.lean() + " := Go.mapSet " + v.lean + " " + k + " " + val + "\n"
	}
	if sel, ok := x.Lhs[0].(*ast.SelectorExpr); ok && !define {
		// x.F = v on a local struct VALUE (a copy: e.g. the range variable)
		id, ok := sel.X.(*ast.Ident)
		if !ok {
			trFail("field assignment through %T", sel.X)
		}
		v := s.lookup(id.Name)
		if v == nil || v.t.k != "struct" {
			trFail("field assignment on a non-struct variable")
		}
		ft, ok := c.tr.structOf(v.t).ftypes[sel.Sel.Name]
		if !ok {
			trFail("assignment to the unmodelled field %s", sel.Sel.Name)
		}
		val, vt := c.expr(s, x.Rhs[0], ft)
		if vt.lean() != ft.lean() {
			trFail("field value type")
		}
		return ind(d) + "let " + v.lean + " : " + v.t.lean() + " := { " + v.lean + " with " + sel.Sel.Name + " := " + val + " }\n"
	}
	id, ok := x.Lhs[0].(*ast.Ident)
	if !ok {
		trFail("assignment to %T", x.Lhs[0])
	}
	var h *gty
	if !define {
		if v := s.lookup(id.Name); v != nil {
			h = v.t
		}
	}
	val, vt := c.expr(s, x.Rhs[0], h)
	if vt.k == "untyped" {
		val, vt = c.expr(s, x.Rhs[0], tInt)
	}
	if h != nil && vt.lean() != h.lean() {
		trFail("assignment of %s to %s", vt.lean(), h.lean())
	}
	t := c.target(s, x.Lhs[0], vt, define)
	return ind(d) + "let " + t + " : " + vt.lean() + " := " + val + "\n"
}

// target of an assignment: an existing variable keeps its Lean name (shadowing `let` = assignment), a `:=` of a
// name that is new IN THIS SCOPE declares a fresh one
func (c *fctx) target(s *scope, e ast.Expr, t *gty, define bool) string {
	id, ok := e.(*ast.Ident)
	if !ok {
		trFail("assignment target %T", e)
	}
	if id.Name == "_" {
		return "_"
	}
	if define {
		if _, here := s.vars[id.Name]; !here {
			return c.tr.declare(s, id.Name, t)
		}
	}
	v := s.lookup(id.Name)
	if v == nil {
		trFail("assignment to unknown variable %s", id.Name)
	}
	if v.t.lean() != t.lean() {
		trFail("assignment changes the type of %s", id.Name)
	}
	return v.lean
}

func (c *fctx) loopCtx(stTuple string) *fctx {
	in := *c
	outerRet := c.ret
	_ = outerRet
	in.ret = func(v string) string { return "(Go.Ctl.ret " + c.wrapIn(v) + ", " + stTuple + ")" }
	in.cont = func() string { return "(Go.Ctl.next, " + stTuple + ")" }
	in.brk = func() string { return "(Go.Ctl.brk, " + stTuple + ")" }
	in.inLoop = true
	return &in
}

// the value carried by Ctl.ret is the plain result tuple; it is wrapped (some …) only where the function returns
func (c *fctx) wrapIn(v string) string { return v }

func (c *fctx) afterLoop(d int, stTuple string, next func() string) string {
	out := ind(d) + "| (Go.Ctl.ret r__, _) => " + c.ret("r__") + "\n"
	out += ind(d) + "| (_, " + stTuple + ") =>\n" + next()
	return out
}

func (c *fctx) rangeLoop(s *scope, x *ast.RangeStmt, d int, next func() string) string {
	if x.Tok != token.DEFINE && (x.Key != nil || x.Value != nil) {
		trFail("range with assignment to existing variables")
	}
	coll, ct := c.expr(s, x.X, nil)
	if ct.k != "slice" {
		trFail("range over %s (only slices: map iteration order is not a function of the source)", ct.k)
	}
	carried := assigned(x.Body.List, s)
	stTuple, stTy := c.stateOf(s, carried)
	inner := &scope{parent: s, vars: map[string]*varInfo{}}
	kn, vn := "_", "_"
	pre := ""
	if x.Key != nil {
		if id := x.Key.(*ast.Ident); id.Name != "_" {
			ln := c.tr.declare(inner, id.Name, tInt)
			kn = ln + "_n"
			pre = ind(d+2) + "let " + ln + " : Int := Int.ofNat " + kn + "\n"
		}
	}
	if x.Value != nil {
		if id := x.Value.(*ast.Ident); id.Name != "_" {
			vn = c.tr.declare(inner, id.Name, ct.elem)
		}
	}
	lc := c.loopCtx(stTuple)
	body := lc.block(inner, x.Body.List, d+2, func() string { return ind(d+2) + lc.cont() + "\n" })
	out := ind(d) + "match Go.rangeLoop (σ := " + stTy + ") (ρ := " + c.fi.result.lean() + ") " + coll + " " + stTuple +
		" (fun " + kn + " " + vn + " st => match st with\n" + ind(d+1) + "| " + stTuple + " =>\n" + pre + body + ind(d+1) + ") with\n"
	return out + c.afterLoop(d, stTuple, next)
}

func mentions2(n ast.Node, name string) bool {
	found := false
	ast.Inspect(n, func(m ast.Node) bool {
		if id, ok := m.(*ast.Ident); ok && id.Name == name {
			found = true
		}
		return true
	})
	return found
}

func (c *fctx) forLoop(s *scope, x *ast.ForStmt, d int, next func() string) string {
	// (a) counted loop: for i := lo; i < hi; i++ { body } with i and hi's variables not assigned in the body
	if as, ok := x.Init.(*ast.AssignStmt); ok && as.Tok == token.DEFINE && len(as.Lhs) == 1 && x.Cond != nil && x.Post != nil {
		iv := as.Lhs[0].(*ast.Ident).Name
		cond, okc := x.Cond.(*ast.BinaryExpr)
		post, okp := x.Post.(*ast.IncDecStmt)
		if okc && okp && cond.Op == token.LSS && post.Tok == token.INC {
			ci, ok1 := cond.X.(*ast.Ident)
			pi, ok2 := post.X.(*ast.Ident)
			if ok1 && ok2 && ci.Name == iv && pi.Name == iv && !mentions2(cond.Y, iv) {
				inner := &scope{parent: s, vars: map[string]*varInfo{}}
				// probe with a temporary declaration to find the carried variables
				carried := assigned(x.Body.List, s)
				bodyAssignsI := false
				for _, st := range x.Body.List {
					ast.Inspect(st, func(n ast.Node) bool {
						switch y := n.(type) {
						case *ast.AssignStmt:
							for _, l := range y.Lhs {
								if id, ok := l.(*ast.Ident); ok && id.Name == iv && y.Tok != token.DEFINE {
									bodyAssignsI = true
								}
							}
						case *ast.IncDecStmt:
							if id, ok := y.X.(*ast.Ident); ok && id.Name == iv {
								bodyAssignsI = true
							}
						}
						return true
					})
				}
				hiStable := true
				for _, v := range carried {
					if mentions2(cond.Y, v) {
						hiStable = false
					}
				}
				lo, lot := c.expr(s, as.Rhs[0], tInt)
				hi, hit := c.expr(s, cond.Y, tInt)
				if !bodyAssignsI && hiStable && lot.k == "int" && hit.k == "int" {
					stTuple, stTy := c.stateOf(s, carried)
					ln := c.tr.declare(inner, iv, tInt)
					lc := c.loopCtx(stTuple)
					body := lc.block(inner, x.Body.List, d+2, func() string { return ind(d+2) + lc.cont() + "\n" })
					out := ind(d) + "match Go.countLoop (σ := " + stTy + ") (ρ := " + c.fi.result.lean() + ") " + lo + " " + hi + " " + stTuple +
						" (fun " + ln + " st => match st with\n" + ind(d+1) + "| " + stTuple + " =>\n" + body + ind(d+1) + ") with\n"
					return out + c.afterLoop(d, stTuple, next)
				}
			}
		}
	}
	// (b) general loop with fuel
	if !c.fi.fuel {
		trFail("internal: general loop in a function not marked as needing fuel")
	}
	if c.inLoop {
		trFail("general loop nested in a loop")
	}
	outer := &scope{parent: s, vars: map[string]*varInfo{}}
	out := ""
	if x.Init != nil {
		as, ok := x.Init.(*ast.AssignStmt)
		if !ok {
			trFail("loop initialiser")
		}
		out += c.assign(outer, as, d)
	}
	stmts := x.Body.List
	carried := assigned(stmts, outer)
	if x.Post != nil {
		for _, v := range assigned([]ast.Stmt{x.Post}, outer) {
			dup := false
			for _, w := range carried {
				if w == v {
					dup = true
				}
			}
			if !dup {
				carried = append(carried, v)
			}
		}
	}
	stTuple, stTy := c.stateOf(outer, carried)
	cond := "true"
	if x.Cond != nil {
		cond, _ = c.expr(outer, x.Cond, tBool)
	}
	inner := &scope{parent: outer, vars: map[string]*varInfo{}}
	lc := c.loopCtx(stTuple)
	postStr := func() string {
		if x.Post == nil {
			return ind(d+2) + "(Go.Ctl.next, " + stTuple + ")\n"
		}
		return lc.block(inner, []ast.Stmt{x.Post}, d+2, func() string { return ind(d+2) + "(Go.Ctl.next, " + stTuple + ")\n" })
	}
	lc.cont = func() string { return "(\n" + postStr() + ind(d+2) + ")" }
	body := lc.block(inner, stmts, d+2, postStr)
	out += ind(d) + "match Go.whileLoop (σ := " + stTy + ") (ρ := " + c.fi.result.lean() + ")" +
		" (fun st => match st with | " + stTuple + " => " + cond + ")" +
		" (fun st => match st with\n" + ind(d+1) + "| " + stTuple + " =>\n" + body + ind(d+1) + ") fuel " + stTuple + " with\n"
	out += ind(d) + "| none => none\n"
	out += ind(d) + "| some (Go.Ctl.ret r__, _) => " + c.ret("r__") + "\n"
	out += ind(d) + "| some (_, " + stTuple + ") =>\n" + next()
	return out
}

// ---------------------------------------------------------------- functions

func hasGeneralLoop(tr *translator, fd *ast.FuncDecl) bool {
	found := false
	ast.Inspect(fd.Body, func(n ast.Node) bool {
		fs, ok := n.(*ast.ForStmt)
		if !ok {
			return true
		}
		counted := false
		if as, ok := fs.Init.(*ast.AssignStmt); ok && as.Tok == token.DEFINE && len(as.Lhs) == 1 && fs.Cond != nil && fs.Post != nil {
			cond, okc := fs.Cond.(*ast.BinaryExpr)
			post, okp := fs.Post.(*ast.IncDecStmt)
			if okc && okp && cond.Op == token.LSS && post.Tok == token.INC {
				iv := as.Lhs[0].(*ast.Ident).Name
				ci, ok1 := cond.X.(*ast.Ident)
				pi, ok2 := post.X.(*ast.Ident)
				if ok1 && ok2 && ci.Name == iv && pi.Name == iv {
					counted = true // refined in forLoop; a loop that fails the refinement aborts the translation
				}
			}
		}
		if !counted {
			found = true
		}
		return true
	})
	return found
}

func (tr *translator) addFunc(pk, recv, name string) {
	p := tr.pkgs[pk]
	fd := findFunc(p, recv, name)
	lean := name
	if recv != "" {
		lean = recv + "_" + name
	}
	if strings.HasPrefix(pk, "nut") {
		lean = pk + "_" + lean
	}
	fi := &funcInfo{pkg: pk, recv: recv, name: name, lean: lean, fd: fd}
	key := pk + "." + recv + "." + name
	tr.funcs[key] = fi
}

func (tr *translator) signature(fi *funcInfo) {
	fd := fi.fd
	if fd.Recv != nil {
		fi.params = append(fi.params, tr.resolve(fi.pkg, fd.Recv.List[0].Type))
	}
	for _, f := range fd.Type.Params.List {
		t := tr.resolve(fi.pkg, f.Type)
		for range f.Names {
			fi.params = append(fi.params, t)
		}
	}
	var rs []*gty
	if fd.Type.Results != nil {
		for _, f := range fd.Type.Results.List {
			t := tr.resolve(fi.pkg, f.Type)
			if _, ptr := f.Type.(*ast.StarExpr); ptr && t.k == "struct" {
				t = &gty{k: "opt", elem: t} // a *T RESULT may be nil
			}
			n := len(f.Names)
			if n == 0 {
				n = 1
			}
			for i := 0; i < n; i++ {
				rs = append(rs, t)
			}
		}
	}
	if len(rs) == 1 {
		fi.result = rs[0]
	} else {
		fi.result = &gty{k: "tuple", items: rs}
	}
	fi.fuel = hasGeneralLoop(tr, fd)
}

func (tr *translator) translate(fi *funcInfo) (text string, err string) {
	defer func() {
		if r := recover(); r != nil {
			if te, ok := r.(trErr); ok {
				err = te.msg
				return
			}
			panic(r)
		}
	}()
	fd := fi.fd
	for _, p := range fi.params {
		if !p.ok() {
			trFail("parameter of an unmodelled type")
		}
	}
	if !fi.result.ok() || (fi.result.k == "tuple" && len(fi.result.items) == 0) {
		trFail("result of an unmodelled type")
	}
	tr.used = map[string]bool{}
	tr.extUsed = nil
	top := &scope{vars: map[string]*varInfo{}}
	var binders []string
	if fi.fuel {
		binders = append(binders, "(fuel : Nat)")
	}
	i := 0
	if fd.Recv != nil {
		n := "recv"
		if len(fd.Recv.List[0].Names) > 0 {
			n = fd.Recv.List[0].Names[0].Name
		}
		ln := tr.declare(top, n, fi.params[0])
		binders = append(binders, "("+ln+" : "+fi.params[0].lean()+")")
		i = 1
	}
	for _, f := range fd.Type.Params.List {
		for _, n := range f.Names {
			ln := tr.declare(top, n.Name, fi.params[i])
			binders = append(binders, "("+ln+" : "+fi.params[i].lean()+")")
			i++
		}
	}
	if fd.Type.Results != nil {
		for _, f := range fd.Type.Results.List {
			if len(f.Names) > 0 {
				trFail("named results")
			}
		}
	}
	c := &fctx{tr: tr, fi: fi}
	c.ret = func(v string) string { return c.wrapRet(v) }
	resTy := fi.result.lean()
	if fi.fuel {
		resTy = "Option " + resTy
	}
	body := c.block(top, fd.Body.List, 1, func() string { return ind(1) + "default\n" })
	var extB []string
	for _, key := range tr.extUsed {
		extB = append(extB, "("+externals[key].param+" : "+externals[key].lean+")")
	}
	fi.exts = tr.extUsed
	binders = append(extB, binders...)
	pos := fset.Position(fd.Pos())
	text = fmt.Sprintf("/-- `%s` (%s:%d) -/\ndef %s %s : %s :=\n%s", fi.name, shortPath(pos.Filename), pos.Line, fi.lean, strings.Join(binders, " "), resTy, body)
	return text, ""
}

func shortPath(p string) string {
	parts := strings.Split(p, "/")
	if len(parts) > 2 {
		parts = parts[len(parts)-2:]
	}
	return strings.Join(parts, "/")
}

type trTarget struct{ pkg, recv, name string }

// emitCode writes Gonuts/Gen/Code.lean
func emitCode(pkgs map[string]*pkg, consts map[string]constEnv, targets []trTarget) string {
	tr := &translator{pkgs: pkgs, consts: consts, structs: map[string]*structInfo{}, funcs: map[string]*funcInfo{}, opaqueUsed: map[string]bool{}}
	var order []*funcInfo
	for _, t := range targets {
		if findFunc(pkgs[t.pkg], t.recv, t.name) == nil {
			order = append(order, &funcInfo{pkg: t.pkg, recv: t.recv, name: t.name, lean: t.name})
			continue
		}
		tr.addFunc(t.pkg, t.recv, t.name)
		fi := tr.funcs[t.pkg+"."+t.recv+"."+t.name]
		order = append(order, fi)
	}
	for _, fi := range order {
		if fi.fd != nil {
			tr.signature(fi)
		}
	}
	var defs []string
	for _, fi := range order {
		if fi.fd == nil {
			defs = append(defs, fmt.Sprintf("def untranslatable_%s : String := %s\n", fi.lean, leanStr("function not found in the source")))
			continue
		}
		text, err := tr.translate(fi)
		if err != "" {
			defs = append(defs, fmt.Sprintf("def untranslatable_%s : String := %s\n", fi.lean, leanStr(err)))
			continue
		}
		defs = append(defs, text)
	}
	var sb strings.Builder
	sb.WriteString("/- GENERATED by /verif/extract (translate.go) from the Go source — do not edit; regenerated on every check run. -/\n")
	sb.WriteString("import Gonuts.Model.GoSem\nset_option linter.unusedVariables false\nnamespace Gonuts.Gen.Code\nopen Gonuts.Model\n\n")
	var ops []string
	for n := range tr.opaqueUsed {
		ops = append(ops, n)
	}
	sort.Strings(ops)
	for _, n := range ops {
		sb.WriteString("/-- a pointer to a foreign type that the translated code only passes around: an opaque token -/\nabbrev " + n + " := Nat\n\n")
	}
	// structures, dependencies first (registration order is use order; a struct's fields were resolved before it was appended)
	for _, key := range tr.structOrd {
		si := tr.structs[key]
		sb.WriteString(fmt.Sprintf("/-- Go struct `%s`", key))
		if len(si.skipped) > 0 {
			sort.Strings(si.skipped)
			sb.WriteString(" (fields not modelled: " + strings.Join(si.skipped, ", ") + ")")
		}
		sb.WriteString(" -/\nstructure " + si.lean + " where\n")
		for _, f := range si.fields {
			sb.WriteString("  " + f + " : " + si.ftypes[f].lean() + "\n")
		}
		sb.WriteString("  deriving DecidableEq, Repr, Inhabited\n\n")
	}
	for _, d := range defs {
		sb.WriteString(d + "\n")
	}
	sb.WriteString("end Gonuts.Gen.Code\n")
	return sb.String()
}
